"""C08 bounded layer: the optimizers implement their published algorithms.

 (A) fmin         : mystic.solvers.fmin vs scipy.optimize.fmin (the installed scipy) on seeded (function, start,
                    tolerances) cases: xopt to 1e-9 of the problem scale max(1,|x0|,|xopt|), fopt to 1e-9 relative
                    (1e-12 absolute), iteration and function-evaluation counts equal.
 (B) fmin_powell  : mystic.solvers.fmin_powell vs the reference Powell direction-set implementation
                    mystic/_scipy060optimize.py:fmin_powell, which uses the SAME Brent line search (`brent` of that
                    module, tol=100*xtol): xopt, fopt (1e-9 relative), iterations, funcalls, warnflag, final direction
                    set, x after every iteration (callback) and the complete sequence of evaluated points.
 (C) strategies   : each of the ten functions of mystic/strategy.py called on a small fake solver object; the mutated
                    positions M = {i: trial[i] != parent[i]} must be explained by SOME tuple of pairwise distinct
                    members != candidate through the strategy's formula (searched exhaustively, 1e-12 relative), and
                    M must follow the crossover rule of the strategy's family (Best1Bin: binomial = non-empty subset,
                    exactly 1 / all positions for CR=0 / CR=1; all others: exponential = cyclic run, see DESIGN O1).
 (D) de-runs      : real DE1/DE2 runs with a Recorder: every trial is explained as in (C) from the population the
                    strategy saw, and a member changes only if its trial had strictly lower energy (then member ==
                    trial, stored energy == trial energy).
 (D') de-values   : the same runs and the same clauses as (D) on objectives with unusual but legal float values: NaN on
                    part of the domain (x[0] < cut; with cut = -3 only trials that leave the start box hit it), +inf
                    plateaus (x[-1] > wall), exactly tied values (quantised cost) and all three together, returned as
                    float or numpy.float64, with or without a penalty, for both DE solvers and all ten strategies.  The
                    oracle is the statement read with IEEE comparisons: a member (position or stored energy) may
                    change only if `trial energy < old energy` is True, which it never is for a NaN or a tied trial.
"""
import math
import random
import itertools
from .common import *       # noqa
from . import common as C

P = 'C08/bounded/'


# ----------------------------------------------------------------------------- objective functions
def illcond(x):
    return float(sum(10.0 ** (2 * i) * (float(v) - 0.5) ** 2 for i, v in enumerate(x)))


def maxabs(x):
    return float(max(abs(float(v) - 0.7 * (i + 1)) for i, v in enumerate(x)))


def quartic(x):
    return float(sum((i + 1) * float(v) ** 4 for i, v in enumerate(x)) + sum(float(v) for v in x))


def kinked(x):
    return float(abs(sum(float(v) for v in x) - 1.0) + 0.01 * sum(float(v) ** 2 for v in x))


FUNCS = dict(COSTS, illcond=illcond, maxabs=maxabs, quartic=quartic, kinked=kinked)
CLASS = {'sphere': 'smooth', 'shifted': 'smooth', 'rosen': 'ill-conditioned', 'tilted': 'smooth', 'quartic': 'smooth',
         'absum': 'non-smooth', 'plateau': 'non-smooth', 'maxabs': 'non-smooth', 'kinked': 'non-smooth',
         'illcond': 'ill-conditioned'}


def gen_ref_specs(seed, n):
    rng = random.Random(seed)
    names = sorted(FUNCS)
    out = []
    for k in range(n):
        ndim = 1 + k % 6
        x0 = [rng.choice([rng.uniform(-3, 3), rng.uniform(-3, 3), rng.uniform(-0.1, 0.1), 0.0, 10.0]) for _ in range(ndim)]
        lim = rng.random()
        out.append(dict(kind='nm' if k % 2 == 0 else 'powell', func=names[(k // 2) % len(names)], ndim=ndim, x0=x0,
                        xtol=rng.choice([1e-4, 1e-4, 1e-6, 1e-2]), ftol=rng.choice([1e-4, 1e-4, 1e-7, 1e-2]),
                        maxiter=rng.choice([5, 30, 200]) if 0.75 < lim < 0.92 else None,
                        maxfun=rng.choice([50, 400]) if lim >= 0.92 else None))
        if out[-1]['kind'] == 'powell' and k % 4 == 1:
            # a caller-supplied direction set (integer or float entries, lists or an array; identity, reversed or sheared)
            shape = rng.choice(['identity', 'reversed', 'sheared'])
            rows = [[1 if i == j else 0 for j in range(ndim)] for i in range(ndim)]
            if shape == 'reversed':
                rows = rows[::-1]
            elif shape == 'sheared' and ndim > 1:
                rows = [[rows[i][j] + (1 if j == (i + 1) % ndim else 0) for j in range(ndim)] for i in range(ndim)]
            out[-1]['direc'] = rows
            out[-1]['direc_as'] = rng.choice(['int-lists', 'float-lists', 'int-array', 'float-array'])
    return out


def _direc(spec):
    rows = spec.get('direc')
    if rows is None:
        return None
    how = spec['direc_as']
    typ = int if how.startswith('int') else float
    rows = [[typ(v) for v in r] for r in rows]
    return np.array(rows, dtype=typ) if how.endswith('array') else rows


def _vec(x):
    return [float(v) for v in np.atleast_1d(np.asarray(x, dtype=float)).ravel()]


def xeq(a, b, x0):
    """minimizers equal to rounding: 1e-9 relative to the scale of the problem max(1, |x0|_inf, |a|_inf, |b|_inf)"""
    a, b = _vec(a), _vec(b)
    scale = max([1.0] + [abs(v) for v in _vec(x0) + a + b if not math.isinf(v)])
    return len(a) == len(b) and all(u == v or abs(u - v) <= 1e-9 * scale for u, v in zip(a, b))


def nm_diff(a, b, x0):
    """clauses on which two (xopt, fopt, iter, funcalls, ...) results differ"""
    return [c for c, bad in (('xopt', not xeq(a[0], b[0], x0)), ('fopt', not feq(a[1], b[1])),
                             ('iteration-count', a[2] != b[2]), ('evaluation-count', a[3] != b[3])) if bad]


def check_nm(spec, res):
    import scipy.optimize as so
    from mystic.solvers import fmin
    f = FUNCS[spec['func']]
    x0 = np.array(spec['x0'], dtype=float)
    kw = dict(xtol=spec['xtol'], ftol=spec['ftol'], maxiter=spec['maxiter'], maxfun=spec['maxfun'], full_output=1, disp=0)
    a = fmin(f, list(spec['x0']), **kw)
    b = so.fmin(f, x0, **kw)
    res.case('fmin:%s:%d:%s' % (spec['func'], spec['ndim'], spec['x0']), nontrivial=a[2] > 1)
    limited = a[4] == 1 or b[4] == 1
    if limited:
        # a run cut short by a limit: modern scipy aborts in the middle of an iteration at exactly maxfun calls, the
        # fmin that mystic is adapted from (scipy 0.6, kept as mystic/_scipy060optimize.fmin) finishes the iteration.
        # The property names "the reference scipy.optimize.fmin it is adapted from": compare with that one here.
        from mystic import _scipy060optimize as ref
        kw0 = {k: v for k, v in kw.items()}
        b = ref.fmin(f, x0, **kw0)
        limited = False
        was_limited = True
    else:
        was_limited = False
    diff = nm_diff(a, b, x0)
    # sub-cases with an identified cause.  (1) scipy >= 1.x aborts in the middle of an iteration at exactly maxfun calls,
    # mystic (like scipy 0.6) finishes the iteration.  (2) mystic's initial-simplex offset for a zero component of x0 is
    # 0.05**2*0.1 = 0.00025000000000000006, scipy's is 0.00025: the tag is given only if scipy started from mystic's
    # simplex (initial_simplex=...) reproduces mystic's result.
    sub = '#run-stopped-by-evaluation-limit' if limited else ''
    if diff and 0.0 in spec['x0']:
        sim = np.array([x0] + [np.where(np.arange(len(x0)) == k, x0 * 1.05 if x0[k] != 0 else 0.05 ** 2 * 0.1, x0)
                               for k in range(len(x0))])
        if was_limited:
            # the 0.6 reference has no initial_simplex argument: the tag is given when the counts agree and only the
            # values differ (same sequence of decisions from a start simplex that differs by one ulp in the offset)
            sub = '#zero-component-offset-0.05**2*0.1-is-not-0.00025'
        elif not nm_diff(a, so.fmin(f, x0, initial_simplex=sim, **kw), x0):
            sub = '#zero-component-offset-0.05**2*0.1-is-not-0.00025'
    d = 'mystic (fopt,iter,funcalls,warn)=%r scipy %r' % (tuple(a[1:5]), tuple(b[1:5]))
    for c in diff:
        res.violation(P + 'fmin/%s-differs-from-scipy-fmin%s' % (c, sub),
                      d + (' xopt %s vs %s' % (_vec(a[0]), _vec(b[0])) if c == 'xopt' else ''), jsonable(spec))
    return (not limited, veq(_vec(a[0]), _vec(b[0]), abs_=0.0))


def check_powell(spec, res):
    from mystic.solvers import fmin_powell
    from mystic import _scipy060optimize as ref
    f = FUNCS[spec['func']]
    ra, rb, ca, cb = Recorder(f), Recorder(f), [], []
    kw = dict(xtol=spec['xtol'], ftol=spec['ftol'], maxiter=spec['maxiter'], maxfun=spec['maxfun'], full_output=1, disp=0)
    kwa, kwb = dict(kw), dict(kw)
    if spec.get('direc') is not None:
        kwa['direc'] = _direc(spec)
        kwb['direc'] = np.array(spec['direc'], dtype=float)       # the reference is given the directions as floats
    a = fmin_powell(ra, list(spec['x0']), callback=lambda x: ca.append(_vec(x)), **kwa)
    b = ref.fmin_powell(rb, np.array(spec['x0'], dtype=float), callback=lambda x: cb.append(_vec(x)), **kwb)
    ax, af, ai, an, aw, ad = a          # mystic:    x, fval, iter, funcalls, warnflag, direc
    bx, bf, bd, bi, bn, bw = b          # reference: x, fval, direc, iter, funcalls, warnflag
    res.case('fmin_powell:%s:%d:%s:%s' % (spec['func'], spec['ndim'], spec['x0'], spec.get('direc_as')), nontrivial=ai > 1)
    d = 'mystic (fopt,iter,funcalls,warn)=%r reference %r' % ((af, ai, an, aw), (bf, bi, bn, bw))
    K = P + 'fmin_powell/'
    # sub-case with an identified cause: the reference may stop after its first iteration (relative improvement over
    # f(x0) <= ftol); mystic's NormalizedChangeOverGeneration(ftol, 2) needs three history entries, so it cannot stop
    # before the second iteration.  Tagged only if mystic's first iteration is the reference's, call for call.
    same_first = ra.n >= rb.n and all(veq(u[0], v[0]) for u, v in zip(ra.calls, rb.calls))
    sub = '#reference-stops-after-first-iteration' if (bi == 1 and bw == 0 and ai >= 2 and same_first) else ''
    if not xeq(ax, bx, spec['x0']):
        res.violation(K + 'xopt-differs-from-reference-powell' + sub, '%s xopt %s vs %s' % (d, _vec(ax), _vec(bx)), jsonable(spec))
    if not feq(af, bf):
        res.violation(K + 'fopt-differs-from-reference-powell' + sub, d, jsonable(spec))
    if ai != bi:
        res.violation(K + 'iteration-count-differs-from-reference-powell' + sub, d, jsonable(spec))
    if an != bn or an != ra.n:
        res.violation(K + 'evaluation-count-differs-from-reference-powell' + sub, d + ' real calls %d' % ra.n, jsonable(spec))
    if aw != bw:
        res.violation(K + 'warnflag-differs-from-reference-powell' + sub, d, jsonable(spec))
    if not veq(_vec(ad), _vec(bd)):
        res.violation(K + 'direction-set-differs-from-reference-powell' + sub, '%s direc %s vs %s' % (d, _vec(ad), _vec(bd)), jsonable(spec))
    # step for step: mystic also calls back once for the initial point
    if len(ca) != len(cb) + 1 or not all(veq(u, v) for u, v in zip(ca[1:], cb)):
        k = next((i for i, (u, v) in enumerate(zip(ca[1:], cb)) if not veq(u, v)), min(len(ca) - 1, len(cb)))
        res.violation(K + 'iterate-differs-from-reference-powell' + sub, '%s first difference at iteration %d' % (d, k + 1), jsonable(spec))
    if ra.n != rb.n or not all(veq(u[0], v[0]) for u, v in zip(ra.calls, rb.calls)):
        k = next((i for i, (u, v) in enumerate(zip(ra.calls, rb.calls)) if not veq(u[0], v[0])), min(ra.n, rb.n))
        res.violation(K + 'evaluated-points-differ-from-reference-powell' + sub, '%s first difference at call %d' % (d, k), jsonable(spec))
    return True


# ----------------------------------------------------------------------------- (C) strategies
#            name: (number of random members, base, family)
STRATS = {'Best1Exp': (2, 'best', 'exp'), 'Best1Bin': (2, 'best', 'bin'), 'Rand1Exp': (3, 'rand', 'exp'),
          'RandToBest1Exp': (2, 'tobest', 'exp'), 'Best2Exp': (4, 'best', 'exp'), 'Rand2Exp': (5, 'rand', 'exp'),
          'Rand1Bin': (3, 'rand', 'exp'), 'RandToBest1Bin': (2, 'tobest', 'exp'), 'Best2Bin': (4, 'best', 'exp'),
          'Rand2Bin': (5, 'rand', 'exp')}      # the four *Bin entries marked 'exp' run the exponential loop (DESIGN O1)


class Fake:
    """the attributes strategy.py reads from a solver"""
    def __init__(self, pop, best, scale, probability, map_solver):
        self.population = [list(p) for p in pop]
        self.bestSolution = list(best)
        self.nPop, self.nDim = len(pop), len(pop[0])
        self.scale, self.probability = scale, probability
        self._map_solver = map_solver
        self.trialSolution = [[0.0] * self.nDim for _ in pop] if map_solver else [0.0] * self.nDim


def explain(name, pop, best, parent_index, F, trial):
    """(ok, mutated positions, explaining tuple or reason): independent reading of the trial vector"""
    k, base, _ = STRATS[name]
    pop = np.asarray(pop, dtype=float)
    best = np.asarray(best, dtype=float)
    trial = np.asarray(trial, dtype=float)
    parent = pop[parent_index]
    if trial.shape != parent.shape:
        return False, [], 'trial has shape %s' % (trial.shape,)
    M = [i for i in range(len(parent)) if trial[i] != parent[i]]
    if not M:
        return True, M, ()
    others = [j for j in range(len(pop)) if j != parent_index]
    idx = np.array(list(itertools.permutations(others, k)), dtype=int)      # pairwise distinct, != candidate
    if not len(idx):
        return False, M, 'population too small'
    m = np.array(M)
    g = [pop[idx[:, j]][:, m] for j in range(k)]
    if base == 'best':
        pred = best[m] + F * ((g[0] - g[1]) if k == 2 else (g[0] + g[1] - g[2] - g[3]))
    elif base == 'rand':
        pred = g[0] + F * ((g[1] - g[2]) if k == 3 else (g[1] + g[2] - g[3] - g[4]))
    else:
        pred = parent[m] + F * (best[m] - parent[m]) + F * (g[0] - g[1])
    ok = np.all(np.isclose(pred, trial[m], rtol=1e-12, atol=1e-12), axis=1)
    hit = np.nonzero(ok)[0]
    if len(hit):
        return True, M, tuple(int(v) for v in idx[hit[0]])
    return False, M, 'no tuple of %d distinct members != %d reproduces trial[%s]=%s' % (k, parent_index, M, trial[m].tolist())


def cyclic_run(M, D):
    """M (sorted positions) is {n, n+1, ..., n+L-1} mod D for some n"""
    if not M or len(M) == D:
        return True
    S = set(M)
    return any(all(((n + t) % D in S) for t in range(len(M))) for n in M)


def pattern_ok(name, M, D, cr):
    fam = STRATS[name][2]
    if cr >= 1.0 and len(M) != D:
        return 'CR=1 but only positions %s of %d mutated' % (M, D)
    if fam == 'bin':
        if not M:
            return 'binomial crossover mutated no position'
        if cr <= 0.0 and len(M) != 1:
            return 'CR=0 but binomial crossover mutated %s' % M
    else:
        if not cyclic_run(M, D):
            return 'mutated positions %s are not a cyclic run in %d dimensions' % (M, D)
        if cr <= 0.0 and len(M) > 1:
            return 'CR=0 but exponential crossover mutated %s' % M
    return None


def gen_strategy_specs(seed, per_strategy):
    rng = random.Random(seed + 303)
    out = []
    for name in sorted(STRATS):
        for _ in range(per_strategy):
            D, NP = rng.choice([1, 2, 3, 4, 5]), rng.choice([6, 7, 8, 9])
            out.append(dict(kind='strategy', name=name, D=D, NP=NP, candidate=rng.randrange(NP),
                            F=rng.choice([0.4, 0.8, 1.2, -0.5]), cr=rng.choice([0.0, 0.3, 0.7, 0.9, 0.9, 1.0]),
                            map_solver=rng.random() < 0.5, seed=rng.randrange(10 ** 9)))
    return out


def check_strategy(spec, res):
    from mystic import strategy as S
    rng = random.Random(spec['seed'])
    D, NP, c = spec['D'], spec['NP'], spec['candidate']
    pop = [[rng.uniform(-5, 5) for _ in range(D)] for _ in range(NP)]
    best = [rng.uniform(-5, 5) for _ in range(D)] if rng.random() < 0.5 else list(pop[rng.randrange(NP)])
    inst = Fake(pop, best, spec['F'], spec['cr'], spec['map_solver'])
    random.seed(spec['seed'])
    getattr(S, spec['name'])(inst, c)
    trial = inst.trialSolution[c] if spec['map_solver'] else inst.trialSolution
    ok, M, why = explain(spec['name'], pop, best, c, spec['F'], trial)
    res.case('strategy:%s:D%d:NP%d:cr%s:|M|=%d:%s' % (spec['name'], D, NP, spec['cr'], len(M), spec['seed']), nontrivial=bool(M))
    if not ok:
        res.violation(P + 'strategy/trial-not-parent-or-base-plus-scaled-difference-of-distinct-members',
                      '%s candidate %d: %s' % (spec['name'], c, why), jsonable(spec))
    bad = pattern_ok(spec['name'], M, D, spec['cr'])
    if bad:
        res.violation(P + 'strategy/mutated-positions-do-not-follow-crossover-rule', '%s: %s' % (spec['name'], bad), jsonable(spec))
    return len(M)


# ----------------------------------------------------------------------------- (D) real DE runs
def pen_fn(x):
    # plain left-to-right addition: python >= 3.12's builtin sum() is compensated for exact floats but not for the numpy
    # scalars of an ndarray, so sum(list) and sum(array) of the same numbers can differ by one ulp (the library hands the
    # penalty an array, the oracle below a tuple)
    t = 0.0
    for v in x:
        t += float(v)
    return 3.0 * abs(t - 1.0)


def gen_de_specs(seed, n):
    rng = random.Random(seed + 404)
    return [dict(kind='de', solver=rng.choice(['DE1', 'DE2']), ndim=rng.choice([1, 2, 3, 4]), npop=rng.choice([6, 7, 10]),
                 cost=rng.choice(['sphere', 'rosen', 'absum', 'plateau', 'plateau', 'tilted', 'maxabs']),
                 strategy=rng.choice(sorted(STRATS)), pen=rng.random() < 0.3, cr=rng.choice([0.0, 0.3, 0.9, 1.0]),
                 f=rng.choice([0.5, 0.8, 1.1]), seed=rng.randrange(10 ** 6), nsteps=rng.choice([4, 8, 15])) for _ in range(n)]


VALUE_MODES = ('nan', 'inf', 'ties', 'mixed')


def unusual(base, mode, cut, wall, quantum, rtype):
    """`base` with unusual but legal values: NaN where x[0] < cut ('nan'), +inf where x[-1] > wall ('inf'), the value
    rounded down to a multiple of `quantum` = many exact ties ('ties'); 'mixed' = all three, in this order of precedence"""
    def f(x):
        v = float(base(x))
        if mode in ('nan', 'mixed') and float(x[0]) < cut:
            v = float('nan')
        elif mode in ('inf', 'mixed') and float(x[-1]) > wall:
            v = float('inf')
        elif mode in ('ties', 'mixed'):
            v = math.floor(v / quantum) * quantum
        return np.float64(v) if rtype == 'np.float64' else v
    return f


def gen_de_value_specs(seed, n):
    rng = random.Random(seed + 505)
    modes, solvers, strategies = list(VALUE_MODES), ['DE1', 'DE2'], sorted(STRATS)
    out = []
    for k in range(n):      # solver x value mode x strategy are cycled, so each combination is met (80 of them)
        out.append(dict(kind='de', solver=solvers[k % 2], values=modes[(k // 2) % 4], strategy=strategies[(k // 8) % 10],
                        ndim=rng.choice([1, 2, 3, 4]), npop=rng.choice([6, 7, 10]),
                        cost=rng.choice(['sphere', 'rosen', 'absum', 'plateau', 'tilted', 'maxabs', 'shifted']),
                        cut=rng.choice([-3.0, -3.0, -1.0, 0.0, 1.5]), wall=rng.choice([0.5, 2.0, 3.0]),
                        quantum=rng.choice([0.5, 2.0, 10.0]), rtype=rng.choice(['float', 'np.float64']),
                        pen=rng.random() < 0.3, cr=rng.choice([0.0, 0.3, 0.9, 1.0]), f=rng.choice([0.5, 0.8, 1.1]),
                        seed=rng.randrange(10 ** 6), nsteps=rng.choice([4, 8, 15])))
    return out


def check_de(spec, res, info=None):
    from mystic import strategy as S
    from mystic.termination import VTR
    seed_all(spec['seed'])
    n, name = spec['ndim'], spec['strategy']
    mode = spec.get('values')
    cost = FUNCS[spec['cost']]
    if mode:
        cost = unusual(cost, mode, spec['cut'], spec['wall'], spec['quantum'], spec['rtype'])
    rec = Recorder(cost)
    seen = {'nan': 0, 'inf': 0, 'tie': 0}      # trials (after generation 0) whose energy is NaN / +inf / equal to the member's
    s = make_solver(spec['solver'], n, spec['npop'])
    s.SetRandomInitialPoints([-3.0] * n, [3.0] * n)
    if spec['pen']:
        s.SetPenalty(pen_fn)
    s.SetTermination(VTR(-1e300))
    s.SetEvaluationLimits(generations=10 ** 6, evaluations=10 ** 7)
    s.SetObjective(rec)
    kw = dict(strategy=getattr(S, name), CrossProbability=spec['cr'], ScalingFactor=spec['f'])
    energy = (lambda p, v: v + pen_fn(p)) if spec['pen'] else (lambda p, v: v)
    K = P + 'de-runs/'
    changed = 0
    for step in range(spec['nsteps']):
        pop0 = [[float(v) for v in p] for p in s.population]
        e0 = [float(e) for e in s.popEnergy]
        best0 = [float(v) for v in s.bestSolution]
        be0 = float(s.bestEnergy)
        nb = rec.n
        s.Step(**kw)
        calls = rec.calls[nb:]
        if len(calls) != s.nPop:
            raise RuntimeError('harness: %d cost calls in a generation of %d members' % (len(calls), s.nPop))
        pop1 = [[float(v) for v in p] for p in s.population]
        e1 = [float(e) for e in s.popEnergy]
        shadow, sbest, sbe = [list(p) for p in pop0], list(best0), be0
        for j, (trial, val) in enumerate(calls):
            et = float(energy(trial, val))
            if step > 0:
                seen['nan'] += math.isnan(et)
                seen['inf'] += et == float('inf')
                seen['tie'] += et == e0[j]
            if step > 0:        # the first Step evaluates the initial population itself
                ok, M, why = explain(name, shadow, sbest, j, spec['f'], trial)
                if not ok:
                    res.violation(K + 'trial-not-formed-as-strategy-defines', 'step %d member %d %s: %s' % (step, j, name, why), jsonable(spec))
                    return changed
            if pop1[j] != pop0[j] or e1[j] != e0[j]:
                changed += 1
                if not (et < e0[j]):
                    res.violation(K + 'member-replaced-by-trial-that-is-not-strictly-lower',
                                  'step %d member %d: energy %r -> %r, trial energy %r' % (step, j, e0[j], e1[j], et), jsonable(spec))
                    return changed
                if pop1[j] != list(trial) or not feq(e1[j], et):
                    res.violation(K + 'replaced-member-is-not-its-trial',
                                  'step %d member %d: now %s energy %r, trial %s energy %r' % (step, j, pop1[j], e1[j], list(trial), et), jsonable(spec))
                    return changed
            if spec['solver'] == 'DE1' and et < e0[j]:       # DE1 updates in place: later trials see the new member
                shadow[j] = list(trial)
                if et < sbe:
                    sbe, sbest = et, list(trial)
    if info is not None:
        for k, v in seen.items():
            info['de_trials_' + k] = info.get('de_trials_' + k, 0) + int(v)
    if mode:    # non-trivial: some member changed AND the run really met the unusual comparison(s) of its mode
        met = {'nan': seen['nan'], 'inf': seen['inf'], 'ties': seen['tie'], 'mixed': seen['nan'] or seen['inf'] or seen['tie']}[mode]
        res.case('de-values:%s:%s:%s:%s:%s:pen=%s:%d' % (spec['solver'], name, mode, spec['cost'], spec['rtype'], spec['pen'], spec['seed']),
                 nontrivial=changed > 0 and met > 0)
        if info is not None and changed > 0 and met > 0:
            k = 'de_values_nontrivial:%s:%s' % (spec['solver'], mode)
            info[k] = info.get(k, 0) + 1
            info['de_values_strategies'] = sorted(set(info.get('de_values_strategies', [])) | {name})
        return changed
    res.case('de:%s:%s:%s:pen=%s:%d' % (spec['solver'], name, spec['cost'], spec['pen'], spec['seed']), nontrivial=changed > 0)
    return changed


# ----------------------------------------------------------------------------- driver
def _work(chunk):
    res = Result('', '')
    info = {'unlimited_nm': 0, 'empty_mutation': 0}
    for spec in chunk:
        if spec['kind'] == 'nm':
            unlimited, strict = check_nm(spec, res)
            info['unlimited_nm'] += unlimited
            info['nm_strict_mismatch'] = info.get('nm_strict_mismatch', 0) + (not strict)
        elif spec['kind'] == 'powell':
            check_powell(spec, res)
        elif spec['kind'] == 'strategy':
            info['empty_mutation'] += check_strategy(spec, res) == 0
        else:
            check_de(spec, res, info)
    out = res.part()
    out['info'] = info
    return out


def run(tier='quick', seed=0):
    quick = tier == 'quick'
    n_ref, n_strat, n_de = (600, 600, 600) if quick else (4000, 8000, 8000)
    n_dev = 800 if quick else 8000
    res = Result(
        rule='(A) fmin vs scipy.optimize.fmin (scipy %s) and (B) fmin_powell vs mystic/_scipy060optimize.fmin_powell '
             '(same brent line search; compared: xopt to 1e-9 x max(1,|x0|,|xopt|), fopt to 1e-9 rel. / 1e-12 abs., iterations, funcalls, warnflag, direc, x after '
             'every iteration, sequence of evaluated points) on seeded (function, start, xtol, ftol[, maxiter | maxfun]) '
             'cases: 10 functions (smooth / non-smooth / ill-conditioned) x dims 1-6; distinct = distinct (function, dim, '
             'start). (C) every strategy of mystic.strategy on a fake solver: the mutated components must be explained by '
             'some tuple of distinct members != candidate through the strategy formula (exhaustive search) and form a '
             'binomial (Best1Bin) / cyclic-run (all others, DESIGN O1) pattern; distinct = distinct (strategy, D, NP, CR, '
             '|mutated|, seed), non-trivial = at least one mutated position. (D) real DE1/DE2 runs: trials explained as in '
             '(C) (formula only: members of a real population share components, so the positions cannot be recovered), a member changes only for a strictly lower trial; non-trivial = some member changed. '
             "(D') the same on objectives with unusual legal values (NaN where x[0] < cut, +inf where x[-1] > wall, quantised = exactly "
             'tied, all three; float / numpy.float64; with / without penalty), solver x value mode x strategy cycled; `strictly lower` is the '
             'IEEE comparison trial < old (False for NaN and for ties); non-trivial = some member changed and a NaN / +inf / tied trial was met.'
             % __import__('scipy').__version__,
        bound='%d reference cases (half fmin, half fmin_powell), %d cases per strategy x 10 strategies (D 1-5, NP 6-9), '
              '%d DE runs (<= 15 generations, dims 1-4, NP 6-10), %d DE runs on unusual-valued objectives (same bounds; 2 solvers x 4 '
              'value modes x 10 strategies)' % (n_ref, n_strat, n_de, n_dev))
    dev = gen_de_value_specs(seed, n_dev)
    specs = gen_ref_specs(seed, n_ref) + gen_strategy_specs(seed, n_strat) + gen_de_specs(seed, n_de) + dev
    res.samples.append(jsonable(dev[0]))
    for kind in ('nm', 'powell', 'strategy', 'de'):
        res.samples.append(jsonable([sp for sp in specs if sp['kind'] == kind][0]))
    random.Random(seed).shuffle(specs)
    chunks = [specs[i::64] for i in range(64)]
    info = {}
    for part in pmap(_work, chunks):
        res.merge(part)
        for k, v in part['info'].items():
            info[k] = sorted(set(info.get(k, [])) | set(v)) if isinstance(v, list) else info.get(k, 0) + v
    res.extra['fmin_cases_not_stopped_by_evaluation_limit'] = info.get('unlimited_nm', 0)
    res.extra['fmin_cases_where_some_xopt_component_differs_by_more_than_1e-9_of_itself'] = info.get('nm_strict_mismatch', 0)
    res.extra['strategy_calls_with_no_mutated_position'] = info.get('empty_mutation', 0)
    for k in sorted(info):
        if k.startswith('de_'):
            res.extra[k] = info[k]
    return res.out()


def replay(inp):
    res = Result('', '')
    {'nm': check_nm, 'powell': check_powell, 'strategy': check_strategy, 'de': check_de}[inp['kind']](inp, res)
    return not res.violations
