"""C09 bounded layer: ensemble solvers return the best member and account for all work.

 (A) ensemble runs : Lattice / Buckshot / Sparsity solvers (class API, Solve or Step-until-Terminated) and the wrappers
     lattice / buckshot / sparsity.  The user's cost writes every real call, tagged with the member that made it, to a
     shadow log (the supplied map -- serial, reversed or thread-pool -- announces the member it is working on).  Clauses:
     number of members; reported best energy == min over the members' best energies and best solution is that member's;
     total evaluations == sum over members == number of real calls (also per member); first evaluated point of every
     member inside the strict ranges, for lattice == (constrained) centre of its own cell, every cell exactly once; no
     call outside the box; constraints hold at every call; penalty included in every member's energy; member
     generations <= limit; every member terminated (VTR: by value or by a limit).
 (B) all-layouts   : EXHAUSTIVE over all bin layouts with <= 4 dimensions and product <= 24: gridpts(bins) is the full
     Cartesian product, each point once; a real LatticeSolver run on that layout starts its members at the cell centres.
 (C) samplers      : samplepts / fillpts / random_samples (seeded): right number of points, all inside [lb, ub].
 (D) call-sequences: ONE ensemble instance driven by a sequence of public calls (Solve, Solve again, Solve(step=True),
     k Steps, Step until Terminated, in seeded combinations; objective given to the first call or via SetObjective),
     with and without evaluation / generation monitors on the ensemble.  After every call that completes a solve
     (the ensemble reports Terminated) the accounting and reduction clauses are evaluated again against the shadow
     log of ALL real cost calls made so far: total == sum over members == real calls, per member == its real calls,
     best energy == min over members, best solution is that member's, number of members unchanged.
"""
import math
import random
import itertools
import threading
from concurrent.futures import ThreadPoolExecutor
from .common import *       # noqa
from . import common as C

P = 'C09/bounded/'
_LOG = []                   # (member, point, raw value): written by every copy of Logged (members hold dill copies)
_CUR = threading.local()


class Logged:
    def __init__(self, name):
        self.name = name

    def __call__(self, x, *args):
        p = tuple(float(v) for v in x)
        v = COSTS[self.name](p)
        _LOG.append((getattr(_CUR, 'member', None), p, v))
        return v


class SubBox:
    """idempotent constraint that maps the box into itself: clamp to an inner box"""
    def __init__(self, lo, hi):
        self.lo = [l + 0.25 * (h - l) for l, h in zip(lo, hi)]
        self.hi = [h - 0.125 * (h - l) for l, h in zip(lo, hi)]

    def __call__(self, x):
        return [min(h, max(l, float(v))) for v, l, h in zip(x, self.lo, self.hi)]

    def holds(self, x):
        return all(l <= float(v) <= h for v, l, h in zip(x, self.lo, self.hi))


def pen_fn(x):
    return 2.0 * abs(float(x[0]) - 0.5)


def _run_item(f, i, a):
    _CUR.member = i
    try:
        return f(*a)
    finally:
        _CUR.member = None


def map_serial(f, *args, **kw):
    return [_run_item(f, i, a) for i, a in enumerate(zip(*args))]


def map_reversed(f, *args, **kw):
    items = list(enumerate(zip(*args)))
    out = [None] * len(items)
    for i, a in reversed(items):
        out[i] = _run_item(f, i, a)
    return out


def map_threads(f, *args, **kw):
    items = list(zip(*args))
    with ThreadPoolExecutor(4) as ex:
        return list(ex.map(lambda ia: _run_item(f, ia[0], ia[1]), enumerate(items)))


MAPS = {'serial': map_serial, 'reversed': map_reversed, 'threads': map_threads}


def _f(v):
    return float(np.asarray(v).ravel()[0])


def centres(lo, hi, nbins):
    return [tuple(l + (j + 0.5) * (h - l) / n for l, h, n, j in zip(lo, hi, nbins, cell))
            for cell in itertools.product(*[range(n) for n in nbins])]


def match_once(points, targets):
    """every target is met (to rounding) by exactly one point and every point meets a target"""
    used = [0] * len(targets)
    for p in points:
        hits = [k for k, t in enumerate(targets) if veq(p, t)]
        if len(hits) != 1:
            return 'point %r is the centre of %d cells' % (p, len(hits))
        used[hits[0]] += 1
    if any(u != 1 for u in used):
        return 'cells started %r times' % (used,)
    return None


# ----------------------------------------------------------------------------- (A) whole runs
def gen_specs(seed, n):
    rng = random.Random(seed)
    out = []
    for k in range(n):
        ndim = rng.choice([1, 2, 2, 3])
        lo = [round(rng.uniform(-5, 0), 2) for _ in range(ndim)]
        hi = [l + rng.choice([1.0, 2.5, 6.0]) for l in lo]
        nbins = [rng.choice([1, 2, 3]) for _ in range(ndim)]
        api = rng.choice(['class', 'class', 'class', 'wrapper'])
        out.append(dict(kind='ens', ens=['lattice', 'buckshot', 'sparsity'][k % 3], api=api, ndim=ndim, lo=lo, hi=hi,
                        nested='NM' if api == 'wrapper' else rng.choice(['NM', 'Powell', 'DE']),
                        nbins=rng.choice([nbins, nbins, int(np.prod(nbins))]), npts=rng.choice([1, 2, 4, 6]),
                        bounds=rng.random() < 0.85, tight=rng.choice([None, None, None, True]),
                        cons=rng.random() < 0.35, pen=rng.random() < 0.35, cost=rng.choice(sorted(COSTS)),
                        maxiter=rng.choice([None, 3, 12, 40]), term=rng.choice(['vtr', 'ncog']),
                        mode=rng.choice(['solve', 'solve', 'step']), map=rng.choice(sorted(MAPS)),
                        seed=rng.randrange(10 ** 6)))
        if not out[-1]['bounds']:
            out[-1]['cons'] = False        # the inner box is defined relative to the bounds
    return out


def _nested(spec):
    from mystic.solvers import NelderMeadSimplexSolver, PowellDirectionalSolver, DifferentialEvolutionSolver
    return {'NM': NelderMeadSimplexSolver, 'Powell': PowellDirectionalSolver, 'DE': DifferentialEvolutionSolver}[spec['nested']]


def run_ens(spec):
    """returns (violations [(clause, detail)], info)"""
    from mystic import solvers as MS
    from mystic.termination import VTR, NormalizedChangeOverGeneration as NCOG
    seed_all(spec['seed'])
    del _LOG[:]
    n, lo, hi = spec['ndim'], spec['lo'], spec['hi']
    bounded = spec['bounds']
    L, H = (lo, hi) if bounded else ([-1e3] * n, [1e3] * n)     # without strict ranges the documented default box
    cons = SubBox(lo, hi) if spec['cons'] else None
    pen = pen_fn if spec['pen'] else None
    cost = Logged(spec['cost'])
    size = spec['nbins'] if spec['ens'] == 'lattice' else spec['npts']
    expected = int(np.prod(size))
    vtr = 0.05
    viol = []
    members = None
    if spec['api'] == 'wrapper':
        kw = dict(bounds=list(zip(lo, hi)) if bounded else None, maxiter=spec['maxiter'], full_output=1, disp=0,
                  map=MAPS[spec['map']], tightrange=spec['tight'])
        if cons:
            kw['constraints'] = cons
        if pen:
            kw['penalty'] = pen
        if spec['mode'] == 'step':
            kw['step'] = True
        x, fval, iters, fcalls, warn, total = getattr(MS, spec['ens'])(cost, n, size, **kw)
    else:
        s = getattr(MS, spec['ens'].capitalize() + 'Solver')(n, size)
        s.SetNestedSolver(_nested(spec))
        if bounded:
            s.SetStrictRanges(list(lo), list(hi), **({'tight': True} if spec['tight'] else {}))
        if cons:
            s.SetConstraints(cons)
        if pen:
            s.SetPenalty(pen)
        s.SetEvaluationLimits(generations=spec['maxiter'])
        s.SetTermination(VTR(vtr) if spec['term'] == 'vtr' else NCOG(1e-4, 4))
        s.SetMapper(MAPS[spec['map']])
        if spec['mode'] == 'solve':
            s.Solve(cost)
        else:
            s.SetObjective(cost)
            guard = 0
            while not s.Terminated() and guard < 3000:
                s.Step()
                guard += 1
            if guard >= 3000:
                return [], {'aborted': 'no termination after 3000 ensemble steps'}
        x, fval, total = s.bestSolution, s.bestEnergy, s._total_evals
        members = list(s._allSolvers)
    x, fval = [float(v) for v in np.atleast_1d(x)], _f(fval)
    log = list(_LOG)
    tags = sorted(set(m for m, p, v in log if m is not None))
    by = {m: [(p, v) for mm, p, v in log if mm == m] for m in tags}
    energy = (lambda p, v: v + pen_fn(p)) if pen else (lambda p, v: v)
    # ---- number of members
    n_members = len(members) if members is not None else len(tags)
    if n_members != expected or (members is not None and any(m is None for m in members)) or len(tags) != expected:
        viol.append(('member-count-is-not-product-of-bins-or-number-of-points',
                     '%d members, %d members evaluated the cost, %d requested (%r)' % (n_members, len(tags), expected, size)))
    # ---- total evaluations == real calls (== sum over members)
    if total != len(log):
        viol.append(('total-evaluations-differ-from-real-cost-calls', 'reported total %r, real calls %d' % (total, len(log))))
    if members is not None and None not in members:
        evs = [int(m.evaluations) for m in members]
        if total != sum(evs):
            viol.append(('total-evaluations-differ-from-sum-over-members', 'total %r members %r' % (total, evs)))
        real = [len(by.get(i, [])) for i in range(len(members))]
        if evs != real:
            viol.append(('member-evaluations-differ-from-its-real-cost-calls', 'members report %r, real calls %r' % (evs, real)))
        # ---- best energy is the minimum over members, best solution is that member's
        es = [_f(m.bestEnergy) for m in members]
        if not (fval == min(es)):
            viol.append(('best-energy-is-not-min-over-members', 'reported %r, members %r' % (fval, es)))
        elif not any(e == fval and [float(v) for v in m.bestSolution] == x for e, m in zip(es, members)):
            viol.append(('best-solution-is-not-the-best-members', 'reported %r, members %r' % (x, [list(map(float, m.bestSolution)) for m in members])))
        # ---- members are subject to the ensemble's limits, termination and penalty
        if spec['maxiter'] is not None:
            gens = [int(m.generations) for m in members]
            if any(g > spec['maxiter'] for g in gens):
                viol.append(('member-exceeds-generation-limit', 'generations %r limit %r' % (gens, spec['maxiter'])))
        for i, m in enumerate(members):
            if not m.Terminated():
                viol.append(('member-not-terminated-after-solve', 'member %d: energy %r generations %r' % (i, es[i], m.generations)))
                break
            if spec['term'] == 'vtr' and not (es[i] <= vtr or (spec['maxiter'] is not None and m.generations >= spec['maxiter'])
                                              or m.evaluations >= m._maxfun or m.generations >= m._maxiter):
                viol.append(('member-stopped-without-meeting-ensemble-termination', 'member %d: energy %r generations %r' % (i, es[i], m.generations)))
                break
        if pen:
            for i, m in enumerate(members):
                bs = tuple(float(v) for v in m.bestSolution)
                raw = [v for p, v in by.get(i, []) if p == bs]
                if raw and not feq(es[i], raw[0] + pen_fn(bs)):
                    viol.append(('member-energy-lacks-ensemble-penalty', 'member %d at %r: energy %r, cost %r + penalty %r' % (i, bs, es[i], raw[0], pen_fn(bs))))
                    break
    elif spec['nested'] == 'NM' and tags:
        # wrapper: a Nelder-Mead member's best vertex is the lowest point it evaluated
        mins = [min(energy(p, v) for p, v in by[m]) for m in tags]
        if not feq(fval, min(mins)):
            viol.append(('best-energy-is-not-min-over-members', 'wrapper returned %r, member minima (shadow log) %r' % (fval, mins)))
        else:
            arg = [p for m in tags for p, v in by[m] if feq(energy(p, v), fval)]
            if len(set(arg)) == 1 and not veq(arg[0], x):
                viol.append(('best-solution-is-not-the-best-members', 'wrapper returned %r, lowest evaluated point %r' % (x, arg[0])))
    # ---- starting points
    firsts = [by[m][0][0] for m in tags]
    if not all(inbox(p, L, H) for p in firsts):
        viol.append(('member-started-outside-strict-ranges', 'first points %r box %r..%r' % (firsts, L, H)))
    elif spec['ens'] == 'lattice' and len(firsts) == expected:
        # an integer nbins is binned at random: any layout with that product is acceptable
        layouts = [list(size)] if not isinstance(size, int) else \
            [list(l) for l in itertools.product(range(1, expected + 1), repeat=n) if int(np.prod(l)) == expected]
        bad = cs = None
        for layout in layouts:
            cs = centres(L, H, layout)
            cs = [tuple(cons(c)) for c in cs] if cons else cs
            bad = match_once(firsts, cs)
            if not bad or len(set(cs)) < len(cs):       # constrained centres that coincide: cells cannot be told apart
                bad = None
                break
        if bad:
            viol.append(('lattice-member-not-started-at-centre-of-own-cell', '%s; first points %r centres %r' % (bad, firsts, cs)))
    # ---- every call subject to bounds and constraints
    if bounded:
        out = [(m, p) for m, p, v in log if not inbox(p, L, H)]
        if out:
            viol.append(('member-evaluated-outside-box', 'member %r at %r, box %r..%r' % (out[0][0], out[0][1], L, H)))
    if cons:
        out = [(m, p) for m, p, v in log if not cons.holds(p)]
        if out:
            viol.append(('member-evaluated-at-unconstrained-point', 'member %r at %r, inner box %r..%r' % (out[0][0], out[0][1], cons.lo, cons.hi)))
    return viol, {'calls': len(log), 'members': n_members}


def check_ens(spec, res):
    try:
        viol, info = run_ens(spec)
    except (RuntimeError, AssertionError):
        raise
    except Exception as e:      # noqa -- an exception of mystic: not a violation of these clauses, scenario aborted
        import traceback
        tb = traceback.extract_tb(e.__traceback__)
        if not any('/mystic/' in fr.filename for fr in tb) or 'rtc/c09' in tb[-1].filename:
            raise
        return '%s: %s (%s:%d)' % (type(e).__name__, str(e)[:80], tb[-1].filename.split('/')[-1], tb[-1].lineno)
    key = (spec['ens'], spec['api'], spec['nested'], spec['mode'], spec['map'], spec['bounds'], spec['cons'], spec['pen'],
           spec['term'], spec['maxiter'], str(spec['nbins'] if spec['ens'] == 'lattice' else spec['npts']))
    res.case(repr(key), nontrivial=info.get('calls', 0) > 0)
    if 'aborted' in info:
        return info['aborted']
    for clause, detail in viol:
        res.violation(P + 'ensemble-runs/' + clause, '%s/%s/%s/%s: %s' % (spec['ens'], spec['api'], spec['nested'], spec['mode'], detail),
                      jsonable(spec))
    return None


# ----------------------------------------------------------------------------- (D) sequences of calls on one ensemble
SEQUENCES = [['solve', 'solve'], ['solve', 'solve', 'solve'], ['solve', 'solve-step'], ['solve', 'steps'],
             ['solve-step', 'solve'], ['solve-step', 'solve-step'], ['steps', 'solve'], ['steps', 'steps', 'solve'],
             ['step1', 'solve'], ['step3', 'solve', 'solve'], ['step1', 'step3', 'steps'], ['step3', 'solve-step', 'solve'],
             ['solve', 'step1', 'steps'], ['solve', 'solve', 'step3', 'solve']]


def gen_seq_specs(seed, n):
    rng = random.Random(seed + 909)
    out = []
    for k in range(n):
        ndim = rng.choice([1, 2, 2, 3])
        lo = [round(rng.uniform(-5, 0), 2) for _ in range(ndim)]
        hi = [l + rng.choice([1.0, 2.5, 6.0]) for l in lo]
        out.append(dict(kind='seq', ens=['lattice', 'buckshot', 'sparsity'][k % 3], ndim=ndim, lo=lo, hi=hi,
                        nested=rng.choice(['NM', 'NM', 'Powell', 'Powell', 'DE']),
                        nbins=[rng.choice([1, 2, 3]) for _ in range(ndim)], npts=rng.choice([1, 2, 4, 5]),
                        bounds=rng.random() < 0.8, cons=False, pen=rng.random() < 0.25, cost=rng.choice(sorted(COSTS)),
                        maxiter=rng.choice([None, 4, 15, 40]), maxfun=rng.choice([None, None, 30, 400]),
                        term=rng.choice(['vtr', 'ncog', 'cog', 'default']), ops=SEQUENCES[k % len(SEQUENCES)],
                        objective=rng.choice(['arg', 'set']), evalmon=rng.random() < 0.4, genmon=rng.random() < 0.4,
                        map=rng.choice(sorted(MAPS) + [None]), seed=rng.randrange(10 ** 6)))
    return out


def accounting(s, expected, log, x_is_list=True):
    """accounting / reduction clauses of the statement on the present state of ensemble s; log = all real calls so far"""
    viol = []
    members = list(s._allSolvers)
    if len(members) != expected or any(m is None for m in members):
        return [('member-count-is-not-product-of-bins-or-number-of-points',
                 '%d members (%d unset), %d requested' % (len(members), sum(m is None for m in members), expected))]
    total, evs = s._total_evals, [int(m.evaluations) for m in members]
    if total != len(log):
        viol.append(('total-evaluations-differ-from-real-cost-calls', 'reported total %r, real calls %d, members report %r'
                     % (total, len(log), evs)))
    if total != sum(evs) or list(s._all_evals) != evs:
        viol.append(('total-evaluations-differ-from-sum-over-members', 'total %r, _all_evals %r, members %r' % (total, list(s._all_evals), evs)))
    if all(m is not None for m, p, v in log):        # calls are attributed to members only under an announcing map
        real = [len([1 for m, p, v in log if m == i]) for i in range(len(members))]
        if evs != real:
            viol.append(('member-evaluations-differ-from-its-real-cost-calls', 'members report %r, real calls %r' % (evs, real)))
    x, fval = [float(v) for v in np.atleast_1d(s.bestSolution)], _f(s.bestEnergy)
    es = [_f(m.bestEnergy) for m in members]
    if not (fval == min(es)):
        viol.append(('best-energy-is-not-min-over-members', 'reported %r, members %r' % (fval, es)))
    elif not any(e == fval and [float(v) for v in m.bestSolution] == x for e, m in zip(es, members)):
        viol.append(('best-solution-is-not-the-best-members', 'reported %r, members %r' % (x, [list(map(float, m.bestSolution)) for m in members])))
    return viol


def run_seq(spec):
    """returns (violations [(clause, detail)], info)"""
    from mystic import solvers as MS
    from mystic import termination as T
    from mystic.monitors import Monitor
    seed_all(spec['seed'])
    del _LOG[:]
    n, lo, hi = spec['ndim'], spec['lo'], spec['hi']
    cost = Logged(spec['cost'])
    size = spec['nbins'] if spec['ens'] == 'lattice' else spec['npts']
    expected = int(np.prod(size))
    s = getattr(MS, spec['ens'].capitalize() + 'Solver')(n, size)
    s.SetNestedSolver(_nested(spec))
    if spec['bounds']:
        s.SetStrictRanges(list(lo), list(hi))
    if spec['pen']:
        s.SetPenalty(pen_fn)
    if spec['evalmon']:
        s.SetEvaluationMonitor(Monitor())
    if spec['genmon']:
        s.SetGenerationMonitor(Monitor())
    s.SetEvaluationLimits(generations=spec['maxiter'], evaluations=spec['maxfun'])
    if spec['term'] != 'default':
        s.SetTermination({'vtr': T.VTR(0.05), 'ncog': T.NormalizedChangeOverGeneration(1e-4, 4),
                          'cog': T.ChangeOverGeneration(1e-6, 5)}[spec['term']])
    if spec['map'] is not None:
        s.SetMapper(MAPS[spec['map']])
    if spec['objective'] == 'set':
        s.SetObjective(cost)
    viol, done = [], 0
    for k, op in enumerate(spec['ops']):
        a = (cost,) if (k == 0 and spec['objective'] == 'arg') else ()
        if op == 'solve':
            s.Solve(*a)
        elif op == 'solve-step':
            s.Solve(*a, step=True)
        else:
            guard = {'step1': 1, 'step3': 3, 'steps': 3000}[op]
            while guard and not (op == 'steps' and s.Terminated()):
                s.Step(*a)
                a = ()
                guard -= 1
            if op == 'steps' and not s.Terminated():
                return viol, {'aborted': 'no termination after 3000 ensemble steps', 'calls': len(_LOG)}
        if op in ('solve', 'solve-step', 'steps') and s.Terminated():       # a solve has been completed
            done += 1
            for clause, detail in accounting(s, expected, list(_LOG)):
                viol.append((clause, 'after call %d of %r: %s' % (k + 1, spec['ops'], detail)))
            if viol:
                break
    return viol, {'calls': len(_LOG), 'completed': done}


def check_seq(spec, res):
    try:
        viol, info = run_seq(spec)
    except (RuntimeError, AssertionError):
        raise
    except Exception as e:      # noqa -- an exception of mystic: not a violation of these clauses, scenario aborted
        import traceback
        tb = traceback.extract_tb(e.__traceback__)
        if not any('/mystic/' in fr.filename for fr in tb) or 'rtc/c09' in tb[-1].filename:
            raise
        return 'call sequence %r: %s: %s (%s:%d)' % (spec['ops'], type(e).__name__, str(e)[:80], tb[-1].filename.split('/')[-1], tb[-1].lineno)
    key = (spec['ens'], spec['nested'], tuple(spec['ops']), spec['objective'], spec['evalmon'], spec['genmon'], spec['map'],
           spec['bounds'], spec['pen'], spec['term'], spec['maxiter'], spec['maxfun'])
    res.case('seq:' + repr(key), nontrivial=info.get('calls', 0) > 0 and info.get('completed', 0) > 0)
    for clause, detail in viol:
        res.violation(P + 'call-sequences/' + clause, '%s/%s evalmon=%s: %s' % (spec['ens'], spec['nested'], spec['evalmon'], detail),
                      jsonable(spec))
    return info.get('aborted')


# ----------------------------------------------------------------------------- (B) all bin layouts (exhaustive)
def all_layouts(maxdim=4, maxprod=24):
    out = []
    for d in range(1, maxdim + 1):
        for lay in itertools.product(range(1, maxprod + 1), repeat=d):
            if int(np.prod(lay)) <= maxprod:
                out.append(list(lay))
    return out


def check_layout(spec, res):
    from mystic.math.grid import gridpts
    from mystic.solvers import LatticeSolver, PowellDirectionalSolver
    lay = spec['layout']
    d = len(lay)
    lo = [-1.0 - 0.5 * i for i in range(d)]
    hi = [2.0 + 0.25 * i for i in range(d)]
    bins = [[l + (j + 0.5) * (h - l) / n for j in range(n)] for l, h, n in zip(lo, hi, lay)]
    pts = [tuple(p) for p in gridpts([list(b) for b in bins])]
    want = list(itertools.product(*bins))
    res.case('gridpts:%r' % lay)
    if len(pts) != len(want) or len(set(pts)) != len(pts) or set(pts) != set(want):
        res.violation(P + 'gridpts/not-the-full-cartesian-product-each-point-once',
                      'layout %r: %d points, %d distinct, %d expected' % (lay, len(pts), len(set(pts)), len(want)), jsonable(spec))
    # the same layout in a real lattice run (one generation per member is enough to see where it starts)
    seed_all(1)
    del _LOG[:]
    s = LatticeSolver(d, tuple(lay))
    s.SetNestedSolver(PowellDirectionalSolver)
    s.SetStrictRanges(list(lo), list(hi))
    s.SetEvaluationLimits(generations=1)
    s.SetMapper(map_serial)
    try:
        s.Solve(Logged('sphere'))
    except Exception as e:      # noqa -- not a violation of these clauses: aborted
        return 'lattice run on layout %r: %s: %s' % (lay, type(e).__name__, str(e)[:80])
    firsts = {}
    for m, p, v in _LOG:
        firsts.setdefault(m, p)
    res.case('lattice-start:%r' % lay)
    bad = None
    if len(s._allSolvers) != len(want) or len(firsts) != len(want):
        bad = '%d members, %d evaluated, %d cells' % (len(s._allSolvers), len(firsts), len(want))
    else:
        bad = match_once([firsts[m] for m in sorted(firsts)], centres(lo, hi, lay))
    if bad:
        res.violation(P + 'all-layouts/lattice-member-not-started-at-centre-of-own-cell', 'layout %r: %s' % (lay, bad), jsonable(spec))


# ----------------------------------------------------------------------------- (C) samplers
def gen_sampler_specs(seed, n):
    rng = random.Random(seed + 77)
    out = []
    for k in range(n):
        d = rng.choice([1, 2, 3, 4])
        lb = [round(rng.uniform(-10, 10), 3) for _ in range(d)]
        ub = [l + rng.choice([0.0, 1e-3, 1.0, 7.5, 100.0]) for l in lb]
        fn = ['samplepts', 'random_samples', 'fillpts', 'random_samples'][k % 4]
        out.append(dict(kind='sampler', fn=fn, lb=lb, ub=ub, npts=rng.choice([1, 2, 5, 17]) if fn != 'fillpts' else rng.choice([1, 2, 4]),
                        dist=rng.choice([None, None, 'normal', 'uniform']) if fn != 'fillpts' else None,
                        ndata=rng.choice([0, 1, 3]), rtol=rng.choice([None, None, 0.5, -0.5]), seed=rng.randrange(10 ** 6)))
        if out[-1]['dist'] is not None or fn == 'fillpts':
            out[-1]['ub'] = [l + max(1.0, u - l) for l, u in zip(lb, out[-1]['ub'])]     # resampling needs a proper interval
    return out


def check_sampler(spec, res):
    from mystic.math.grid import samplepts, fillpts
    from mystic.math.samples import random_samples
    from mystic.math import Distribution
    seed_all(spec['seed'])
    lb, ub, npts = list(spec['lb']), list(spec['ub']), spec['npts']
    dist = None         # one distribution per dimension, wider than the interval (so clipping / resampling has work to do)
    if spec['dist'] == 'normal':
        dist = [Distribution('numpy.random.normal', 0.5 * (l + u), u - l) for l, u in zip(lb, ub)]
    elif spec['dist'] == 'uniform':
        dist = [Distribution('numpy.random.uniform', l - 0.5 * (u - l), u + (u - l)) for l, u in zip(lb, ub)]
    try:
        if spec['fn'] == 'samplepts':
            pts = samplepts(lb, ub, npts, dist)
        elif spec['fn'] == 'random_samples':
            pts = np.asarray(random_samples(lb, ub, npts, dist)).T.tolist()
        else:
            rng = random.Random(spec['seed'])
            data = [[rng.uniform(l, u) for l, u in zip(lb, ub)] for _ in range(spec['ndata'])]
            pts = fillpts(lb, ub, npts, data or None, spec['rtol'])
    except Exception as e:      # noqa -- e.g. the documented RuntimeError 'bounds could not be applied': aborted
        return '%s(dist=%s): %s: %s' % (spec['fn'], spec['dist'], type(e).__name__, str(e)[:80])
    res.case('%s:d%d:n%d:dist=%s:%d' % (spec['fn'], len(lb), npts, spec['dist'], spec['seed']))
    K = P + 'samplers/%s-' % spec['fn']
    if len(pts) != npts or any(len(p) != len(lb) for p in pts):
        res.violation(K + 'wrong-number-of-points', '%d points of %r requested, got %r' % (npts, len(lb), np.shape(pts)), jsonable(spec))
    out = [p for p in pts if not inbox(p, lb, ub)]
    if out:
        res.violation(K + 'point-outside-range', 'point %r range %r..%r' % (out[0], lb, ub), jsonable(spec))
    return None


# ----------------------------------------------------------------------------- driver
CHECKS = {'ens': check_ens, 'layout': check_layout, 'sampler': check_sampler, 'seq': check_seq}


def _work(chunk):
    res = Result('', '')
    aborted = []
    for spec in chunk:
        a = CHECKS[spec['kind']](spec, res)
        if a:
            aborted.append(a)
    out = res.part()
    out['aborted'] = aborted
    return out


def run(tier='quick', seed=0):
    quick = tier == 'quick'
    n_ens, n_samp, n_seq = (420, 240, 210) if quick else (9000, 6000, 4200)
    layouts = [dict(kind='layout', layout=l) for l in all_layouts()]
    res = Result(
        rule='(A) seeded ensemble scenarios: {Lattice, Buckshot, Sparsity} x {class API, wrapper function} x nested {NM, '
             'Powell, DE} x bounds x constraints x penalty x generation limit x termination x {Solve, Step until '
             'Terminated} x {serial, reversed, thread-pool map}; every real cost call is logged with the member that made '
             'it (shadow, independent of the solver counters); distinct = distinct settings tuple. (B) EVERY bin layout '
             'with <= 4 dimensions and product <= 24: gridpts == full Cartesian product, each point once, and a real '
             'LatticeSolver run starts its members at the cell centres, each cell once. (C) seeded samplepts / '
             'random_samples / fillpts calls: number of points and lb <= x <= ub. (D) seeded ensemble scenarios (class '
             'API, with/without evaluation and generation monitors, announcing maps or the builtin map) x %d fixed '
             'sequences of Solve / Solve(step=True) / k Steps / Step-until-Terminated on the SAME instance: accounting '
             'and reduction clauses re-evaluated after every call that completes a solve.' % len(SEQUENCES),
        bound='%d ensemble scenarios (dims 1-3, <= 27 members), all %d bin layouts (exhaustive), %d sampler calls (dims 1-4), '
              '%d call-sequence scenarios (<= 4 calls each)' % (n_ens, len(layouts), n_samp, n_seq))
    specs = gen_specs(seed, n_ens) + layouts + gen_sampler_specs(seed, n_samp) + gen_seq_specs(seed, n_seq)
    for kind in ('ens', 'layout', 'sampler', 'seq'):
        res.samples.append(jsonable([sp for sp in specs if sp['kind'] == kind][0]))
    random.Random(seed).shuffle(specs)
    chunks = [specs[i::96] for i in range(96)]
    for part in pmap(_work, chunks):
        res.merge(part)
        for a in part['aborted']:
            res.extra.setdefault('aborted', []).append(a)
    res.extra['exhaustive'] = True      # part (B) only: the layout space is enumerated completely
    res.extra['exhaustive_part'] = 'bin layouts with <= 4 dimensions and product <= 24 (%d layouts)' % len(layouts)
    if 'aborted' in res.extra:
        res.extra['aborted_count'] = len(res.extra['aborted'])
        res.extra['aborted'] = sorted(set(res.extra['aborted']))[:20]
    return res.out()


def replay(inp):
    res = Result('', '')
    CHECKS[inp['kind']](inp, res)
    return not res.violations
