"""C12 bounded layer: translation validation per instance with SMT.

For every enumerated constraint system the REAL simplify / solve / linear_symbolic / symbolic_bounds is called, the
input (text, or matrices / bounds) and the returned text are parsed by an independent reader (python `ast`, exact
polynomial arithmetic over Fractions) into z3 real-arithmetic formulas and z3 is asked for a point where they
disagree (all points; LRA, or NRA with a sign case split on the denominator).  A z3 model only counts after it was
re-checked by direct evaluation of the texts (python eval with every literal turned into a Fraction)."""
import ast
import io
import re
import random
import operator
import signal
import resource
import contextlib
import multiprocessing as mp
from fractions import Fraction as Fr
from .common import Result, pmap, seed_all, jsonable

EPS = Fr(1, 10 ** 9)
_CMP = re.compile(r'(<=|>=|!=|==|<|>|=)')
OPS = {'<=': operator.le, '>=': operator.ge, '!=': operator.ne, '==': operator.eq, '=': operator.eq,
       '<': operator.lt, '>': operator.gt}
FLIP = {'<=': '>=', '>=': '<=', '<': '>', '>': '<', '==': '==', '=': '=', '!=': '!='}


# ----------------------------------------------------------------------------- exact polynomials {monomial: Fr}
def p_add(a, b, s=1):
    r = dict(a)
    for m, c in b.items():
        c = r.get(m, 0) + s * c
        if c:
            r[m] = c
        else:
            r.pop(m, None)
    return r


def p_mul(a, b):
    r = {}
    for m1, c1 in a.items():
        for m2, c2 in b.items():
            d = dict(m1)
            for v, k in m2:
                d[v] = d.get(v, 0) + k
            m = tuple(sorted(d.items()))
            c = r.get(m, 0) + c1 * c2
            if c:
                r[m] = c
            else:
                r.pop(m, None)
    return r


ONE = {(): Fr(1)}


def rat(node):
    """ast expression -> (numerator, denominator) polynomials"""
    if isinstance(node, ast.Constant) and isinstance(node.value, (int, float)):
        v = Fr(node.value)                      # the value python reads from the literal, exactly
        return ({(): v} if v else {}), ONE
    if isinstance(node, ast.Name):
        return {((node.id, 1),): Fr(1)}, ONE
    if isinstance(node, ast.UnaryOp) and isinstance(node.op, (ast.USub, ast.UAdd)):
        n, d = rat(node.operand)
        return (p_add({}, n, -1) if isinstance(node.op, ast.USub) else n), d
    if isinstance(node, ast.BinOp):
        if isinstance(node.op, ast.Pow):
            k = ast.literal_eval(node.right)
            if not isinstance(k, int):
                raise ValueError('exponent')
            n, d = rat(node.left)
            if k < 0:
                n, d, k = d, n, -k
            rn, rd = ONE, ONE
            for _ in range(k):
                rn, rd = p_mul(rn, n), p_mul(rd, d)
            return rn, rd
        (an, ad), (bn, bd) = rat(node.left), rat(node.right)
        if isinstance(node.op, (ast.Add, ast.Sub)):
            s = 1 if isinstance(node.op, ast.Add) else -1
            if ad == bd:
                return p_add(an, bn, s), ad
            return p_add(p_mul(an, bd), p_mul(bn, ad), s), p_mul(ad, bd)
        if isinstance(node.op, ast.Mult):
            return p_mul(an, bn), p_mul(ad, bd)
        if isinstance(node.op, ast.Div):
            return p_mul(an, bd), p_mul(ad, bn)
    raise ValueError('outside the linear / single-factor rational class: ' + ast.dump(node)[:80])


def split_line(line):
    parts = _CMP.split(line.strip())
    if len(parts) != 3:
        raise ValueError('not a relation: %r' % line)
    return parts[0].strip(), parts[1], parts[2].strip()


def relation(line, g=None):
    """'lhs cmp rhs' -> (cmp, N, D, G) with lhs - rhs = N/D;  D is None when constant; G: extra scale terms"""
    lhs, cmp, rhs = split_line(line)
    (ln, ld), (rn, rd) = rat(ast.parse(lhs, mode='eval').body), rat(ast.parse(rhs, mode='eval').body)
    n, d = (p_add(ln, rn, -1), ld) if ld == rd else (p_add(p_mul(ln, rd), p_mul(rn, ld), -1), p_mul(ld, rd))
    if not d:
        return cmp, {}, {}, g                    # identically undefined
    if list(d) == [()]:
        return cmp, {m: c / d[()] for m, c in n.items()}, None, g
    return cmp, n, d, g


def p_eval(p, env):
    t = Fr(0)
    for m, c in p.items():
        for v, k in m:
            c = c * env[v] ** k
        t += c
    return t


def p_scale(p, env):
    t = Fr(0)
    for m, c in p.items():
        for v, k in m:
            c = c * env[v] ** k
        t += abs(c)
    return t


# ----------------------------------------------------------------------------- z3 side
def _z3():
    import z3
    return z3


def zpoly(p, V, absolute=False):
    z3 = _z3()
    tot = z3.RealVal(0)
    for m, c in p.items():
        t = z3.RealVal(str(c))
        for v, k in m:
            for _ in range(k):
                t = t * V[v]
        tot = tot + (z3.If(t >= 0, t, -t) if absolute else t)
    return tot


def zrel(rel, V, eps):
    """-> (truth, sure_true, sure_false) z3 formulas of one relation (see `rule`)"""
    z3 = _z3()
    cmp, n, d, g = rel
    N = zpoly(n, V)
    zero = z3.RealVal(0)
    base = {'<=': N <= zero, '>=': N >= zero, '<': N < zero, '>': N > zero, '==': N == zero, '=': N == zero,
            '!=': N != zero}
    if d is None:
        t, undef = base[cmp], z3.BoolVal(False)
    elif not d:
        t, undef = z3.BoolVal(False), z3.BoolVal(True)
    else:
        D = zpoly(d, V)
        fl = base[FLIP[cmp]]
        t, undef = z3.Or(z3.And(D > zero, base[cmp]), z3.And(D < zero, fl)), D == zero
    if eps == 0:
        return t, t, z3.Not(t)
    S = (zpoly(n, V, absolute=True) + zpoly(g or {}, V, absolute=True)) * z3.RealVal(str(eps))
    big = z3.Or(N >= S, -N >= S)
    if cmp in ('==', '='):
        return t, t, z3.Or(undef, z3.And(z3.Not(t), big))
    if cmp == '!=':
        return t, z3.And(t, big), z3.Not(t)
    return t, z3.And(t, big), z3.Or(undef, z3.And(z3.Not(t), big))


def zsystem(inp, cases, V, eps):
    """z3 formula 'input and output disagree' (exact: xor; band: sure-true meets sure-false)"""
    z3 = _z3()
    ri = [zrel(r, V, eps) for r in inp]
    rc = [[zrel(r, V, eps) for r in c] for c in cases]
    if eps == 0:
        T = z3.And([r[0] for r in ri] + [z3.BoolVal(True)])
        O = z3.Or([z3.And([r[0] for r in c] + [z3.BoolVal(True)]) for c in rc] + [z3.BoolVal(False)])
        return z3.Xor(T, O)
    Tst = z3.And([r[1] for r in ri] + [z3.BoolVal(True)])
    Tsf = z3.Or([r[2] for r in ri] + [z3.BoolVal(False)])
    Ost = z3.Or([z3.And([r[1] for r in c] + [z3.BoolVal(True)]) for c in rc] + [z3.BoolVal(False)])
    Osf = z3.And([z3.Or([r[2] for r in c] + [z3.BoolVal(False)]) for c in rc] + [z3.BoolVal(True)])
    return z3.Or(z3.And(Tst, Osf), z3.And(Tsf, Ost))


def zquery(inp, cases, names, eps, timeout=20000):
    """-> ('unsat'|'sat'|'unknown', model point {name: Fraction} or None)"""
    z3 = _z3()
    V = {v: z3.Real(v) for v in names}
    s = z3.Solver()
    s.set('timeout', timeout)
    s.add(zsystem(inp, cases, V, eps))
    r = s.check()
    if r == z3.unsat:
        return 'unsat', None
    if r != z3.sat:
        return 'unknown', None
    m, pt = s.model(), {}
    for v in names:
        val = m.eval(V[v], model_completion=True)
        if z3.is_algebraic_value(val):
            val = val.approx(30)
        pt[v] = Fr(val.numerator_as_long(), val.denominator_as_long())
    return 'sat', pt


def zsat(rels, names):
    z3 = _z3()
    V = {v: z3.Real(v) for v in names}
    s = z3.Solver()
    s.add(*[zrel(r, V, 0)[0] for r in rels])
    return s.check() != z3.unsat


# ----------------------------------------------------------------------------- direct evaluation of the text
class _Lit(ast.NodeTransformer):
    def visit_Constant(self, node):
        return ast.copy_location(ast.Call(ast.Name('Fr', ast.Load()), [node], []), node)


def _ev(expr, env):
    tree = ast.fix_missing_locations(_Lit().visit(ast.parse(expr, mode='eval')))
    return eval(compile(tree, '<c12>', 'eval'), {'Fr': Fr, '__builtins__': {}}, dict(env))


def line_status(line, env, eps, g=None):
    """direct evaluation of one line at a point -> (truth, sure_true, sure_false)"""
    lhs, cmp, rhs = split_line(line)
    try:
        l, r = _ev(lhs, env), _ev(rhs, env)
    except ZeroDivisionError:
        return False, False, True
    t = bool(OPS[cmp](l, r))
    if eps == 0:
        return t, t, not t
    _, n, d, _ = relation(line)
    den = abs(p_eval(d, env)) if d else Fr(1)
    big = abs(l - r) * den >= eps * (p_scale(n, env) + p_scale(g or {}, env))
    if cmp in ('==', '='):
        return t, t, (not t) and big
    if cmp == '!=':
        return t, t and big, not t
    return t, t and big, (not t) and big


def disagree_at(in_lines, case_lines, env, eps, g=None):
    si = [line_status(l, env, eps, g) for l in in_lines]
    sc = [[line_status(l, env, eps, g) for l in c] for c in case_lines]
    if eps == 0:
        return all(s[0] for s in si) != any(all(s[0] for s in c) for c in sc)
    Tst, Tsf = all(s[1] for s in si), any(s[2] for s in si)
    Ost, Osf = any(all(s[1] for s in c) for c in sc), all(any(s[2] for s in c) for c in sc)
    return (Tst and Osf) or (Tsf and Ost)


def has_float(texts):
    return any(isinstance(n, ast.Constant) and isinstance(n.value, float)
               for t in texts for l in t for side in split_line(l)[::2] for n in ast.walk(ast.parse(side, mode='eval')))


def names_of(texts):
    out = []
    for t in texts:
        for l in t:
            for side in split_line(l)[::2]:
                for n in ast.walk(ast.parse(side, mode='eval')):
                    if isinstance(n, ast.Name) and n.id not in out:
                        out.append(n.id)
    return out


def validate(in_lines, case_lines, exact_only, stats, extra_names=(), gscale=False):
    """-> None when equivalent, else (mode, point, confirmed)"""
    names = names_of([in_lines] + case_lines)
    names += [v for v in extra_names if v not in names]
    inp = [relation(l) for l in in_lines]
    g = None
    if gscale:                                           # solved forms: scale of the whole system (see `rule`)
        g = {((v, 1),): Fr(1) for v in names}
        g[()] = sum(abs(r[1].get((), 0)) for r in inp) or Fr(0)
        inp = [relation(l, g) for l in in_lines]
    cases = [[relation(l, g) for l in c] for c in case_lines]
    r, pt = zquery(inp, cases, names, 0)
    mode = 'exact'
    if r == 'sat' and not exact_only and has_float([in_lines] + case_lines):
        stats['tolerance_band_used'] = stats.get('tolerance_band_used', 0) + 1
        r, pt = zquery(inp, cases, names, EPS)
        mode = 'band'
    if r == 'unsat':
        return None
    eps = 0 if mode == 'exact' else EPS
    if r == 'unknown':                                   # undecided by z3: sampled direct evaluation instead
        stats['z3_unknown'] = stats.get('z3_unknown', 0) + 1
        rng = random.Random(len(str(in_lines)))
        for _ in range(400):
            env = {v: Fr(rng.choice([0, 1, -1, rng.randint(-9, 9), rng.randint(-10 ** 6, 10 ** 6)]),
                         rng.choice([1, 1, 2, 3, 7])) for v in names}
            if disagree_at(in_lines, case_lines, env, eps, g):
                return mode + '-sampled', env, True
        return None
    stats['disagreements_checked'] = stats.get('disagreements_checked', 0) + 1
    return mode, pt, disagree_at(in_lines, case_lines, pt, eps, g)


# ----------------------------------------------------------------------------- program generators
NAMINGS = [None, None, 'y', 'sparse', ['a', 'b', 'c', 'd'], ['a', 'ab', 'b', 'ba'], ['x', 'xx', 'xxx', 'xxxx'],
           ['spam', 'eggs', 'ham', 'tofu'], ['p1', 'p2', 'q1', 'q12']]
INTS = [1, 2, 3, 4, 5, 7, 9]
FRACS = [0.5, 0.25, 1.5, 0.1, 0.3, 2.75, 0.7, 3.2, 0.125, 2.0]
HUGE = [1e8, 3e8, 2.5e8, 1e-8, 4e-8, 2.5e-8]
# literals whose decimal TEXT invites mangling by textual rewriting ('0.0' inside '10.05', trailing '.0', leading '0.0')
DIGITS = [10.05, 20.01, 100.025, 1.001, 0.05, 10.0, 100.0, 30.5, 0.007, 50.0, 1.0, 0.0625]
ALLCMP = ['==', '=', '<=', '>=', '<', '>', '!=']


def _coef(rng, style):
    pool = INTS if style == 'int' else FRACS if style == 'frac' else INTS + FRACS if style == 'mixed' \
        else DIGITS if style == 'digits' else INTS + FRACS + HUGE * 2
    return rng.choice(pool) * rng.choice([1, -1])


def _num(c):
    return str(c) if isinstance(c, int) else repr(float(c))


def _terms(rng, cs_vs):
    s = ''
    for i, (c, v) in enumerate(cs_vs):
        body = ('%s*%s' % (_num(abs(c)), v)) if (abs(c) != 1 or rng.random() < .3) else v
        s += ('-' if c < 0 else '') + body if i == 0 else (' - ' if c < 0 else ' + ') + body
    return s


def _naming(rng, nv):
    nm = rng.choice(NAMINGS)
    if nm is None or isinstance(nm, str) and nm != 'sparse':
        base = nm or 'x'
        return [base + str(i) for i in range(nv)], ({} if nm is None else {'variables': nm})
    if nm == 'sparse':
        return ['x1', 'x4', 'x10', 'x11'][:nv], {}
    return nm[:nv], {'variables': nm[:nv]}


def _linear_line(rng, names, style, cmp=None):
    k = rng.randint(1, len(names))
    left = [(_coef(rng, style), v) for v in rng.sample(names, k)]
    lhs = _terms(rng, left)
    if rng.random() < .25:
        lhs += ' + ' + _num(abs(_coef(rng, style)))
    rhs = _num(_coef(rng, style)) if rng.random() < .85 else '0'
    if rng.random() < .3:
        rhs = _terms(rng, [(_coef(rng, style), rng.choice(names))]) + (' + ' + rhs if rng.random() < .6 else '')
    return '%s %s %s' % (lhs, cmp or rng.choice(ALLCMP), rhs)


def gen_program(family, seed):
    rng = random.Random(seed)
    style = rng.choice(['int', 'int', 'frac', 'mixed', 'extreme', 'extreme'])
    spec = {'family': family, 'rseed': seed, 'style': style}
    if family in ('simplify-linear', 'simplify-opposed'):
        nv, nl = rng.randint(1, 4), rng.randint(1, 4)
        names, kw = _naming(rng, nv)
        lines = [_linear_line(rng, names, style) for _ in range(nl)]
        if family == 'simplify-opposed':              # the same two sides with two opposite comparators
            l, c, r = split_line(_linear_line(rng, names, style, '<='))
            a, b = rng.choice([('<=', '>='), ('<', '>'), ('<', '>='), ('<=', '>')])
            second = '%s %s %s' % (l, b, r)
            if rng.random() < .5:                         # opposed only after simplification (merge of bounds)
                f = rng.choice([2, 4, 0.5, -1, -2])
                second = '%s*(%s) %s %s*(%s)' % (_num(f), l, b if f > 0 else FLIP[b], _num(f), r)
                spec['scaled'] = True
            lines = (lines[:nl - 1] + ['%s %s %s' % (l, a, r), second])
            rng.shuffle(lines)
        kw['all'] = rng.random() < .8
        if rng.random() < .3:
            kw['cycle'] = True
        if rng.random() < .25:
            kw['target'] = rng.sample(names, len(names))
    elif family in ('simplify-rational', 'simplify-product'):
        nv = rng.randint(2, 4) if family == 'simplify-product' else rng.randint(1, 4)
        names, kw = _naming(rng, nv)
        xk = rng.choice(names)                           # the single variable factor
        oth = [v for v in names if v != xk]
        rng.shuffle(oth)
        xi, xj = (oth + [None, None])[:2]
        a, b, c = _num(_coef(rng, style)), _num(_coef(rng, style)), _num(_coef(rng, style))
        cmp = rng.choice(ALLCMP)
        if family == 'simplify-product':
            forms = ['%(a)s*%(xi)s*%(xk)s %(cmp)s %(c)s', '%(a)s*%(xi)s*%(xk)s + %(b)s %(cmp)s %(c)s']
        else:
            forms = ['%(a)s/%(xk)s %(cmp)s %(c)s', '%(a)s/%(xk)s + %(b)s %(cmp)s %(c)s']
            if xi:
                forms = forms[:1] + ['%(a)s*%(xi)s/%(xk)s + %(b)s %(cmp)s %(c)s', '%(xi)s/%(xk)s %(cmp)s %(c)s',
                                     '%(c)s %(cmp)s %(a)s*%(xi)s/%(xk)s', '%(a)s*%(xi)s/%(xk)s**2 %(cmp)s %(c)s']
            if xj:
                forms += ['%(xi)s/%(xk)s + %(b)s %(cmp)s %(c)s*%(xj)s',
                          '(%(a)s*%(xi)s + %(b)s*%(xj)s)/%(xk)s %(cmp)s %(c)s',
                          '%(a)s*%(xi)s/%(xk)s %(cmp)s %(b)s*%(xj)s/%(xk)s + %(c)s']
        lines = [rng.choice(forms) % dict(a=a, b=b, c=c, xi=xi, xj=xj, xk=xk, cmp=cmp)]
        if len(oth) > 1 and rng.random() < .4:
            lines.append(_linear_line(rng, oth, style))
            rng.shuffle(lines)
        if xi and rng.random() < .6:                      # isolate the variable with a constant coefficient
            kw['target'] = [xi]
        spec['factor'] = xk
        kw['all'] = True
    elif family == 'solve':
        nv = rng.randint(1, 4)
        m = rng.randint(1, min(nv, 3))
        names, kw = _naming(rng, nv)
        style = spec['style'] = rng.choice(['int', 'int', 'frac', 'mixed'])
        rows = [[_coef(rng, style) if rng.random() < .8 else 0 for _ in names] for _ in range(m)]
        for r_ in rows:
            if not any(r_):
                r_[rng.randrange(nv)] = _coef(rng, style)
        if style == 'int' and rng.random() < .3:       # a dependent (still consistent) extra equation
            k = rng.choice([2, -1, 3])
            rows.append([k * v for v in rows[0]])
        xs = [rng.randint(-5, 5) for _ in names]
        lines = []
        for r_ in rows:
            b = sum(Fr(c) * x for c, x in zip(r_, xs))
            b = int(b) if style == 'int' else float(b)
            lines.append('%s = %s' % (_terms(rng, [(c, v) for c, v in zip(r_, names) if c]), _num(b)))
        if rng.random() < .3:
            kw['target'] = rng.sample(names, len(names))
    else:
        raise ValueError(family)
    spec.update(text='\n'.join(lines), kwds=kw)
    return spec


def gen_solve_literals(family, seed):
    """consistent systems of two or three equalities (integer coefficients, independent rows) whose right-hand sides are
    literals with awkward decimal text -- solve() passes the text through sympy and textual clean-ups"""
    rng = random.Random(seed)
    nv = rng.randint(2, 4)
    m = rng.randint(2, min(nv, 3))
    names, kw = _naming(rng, nv)
    while True:
        rows = [[rng.choice([1, 1, -1, 2, -2, 3, 0]) for _ in names] for _ in range(m)]
        cols = [[Fr(r_[j]) for r_ in rows] for j in range(nv)]
        if all(any(r_) for r_ in rows) and _rank(cols) == m:
            break
    lines = ['%s = %s' % (_terms(rng, [(c, v) for c, v in zip(r_, names) if c]), _num(rng.choice(DIGITS) * rng.choice([1, 1, -1])))
             for r_ in rows]
    if rng.random() < .3:
        kw['target'] = rng.sample(names, len(names))
    return {'family': family, 'rseed': seed, 'style': 'digits', 'text': '\n'.join(lines), 'kwds': kw}


def _rank(cols):
    rows = [list(r) for r in zip(*cols)]
    rk = 0
    for c in range(len(rows[0]) if rows else 0):
        piv = next((i for i in range(rk, len(rows)) if rows[i][c] != 0), None)
        if piv is None:
            continue
        rows[rk], rows[piv] = rows[piv], rows[rk]
        for i in range(len(rows)):
            if i != rk and rows[i][c] != 0:
                f = rows[i][c] / rows[rk][c]
                rows[i] = [a - f * b for a, b in zip(rows[i], rows[rk])]
        rk += 1
    return rk


def respell(text, rng, equalities=False):
    """the same system in another legal spelling: blanks around / * + -, and == for = in equalities"""
    out = []
    for line in text.split('\n'):
        m = _CMP.search(line.replace('**', '\0\0'))
        if rng.random() < .7:
            for op in '/*':
                if rng.random() < .6:
                    line = re.sub(r'(?<![*])\s*%s\s*(?![*])' % re.escape(op), ' %s ' % op, line)
        if equalities and rng.random() < .5:
            line = re.sub(r'(?<![<>=!])=(?!=)', '==', line)
        out.append(line)
    return '\n'.join(out)


def gen_spelled(family, seed):
    """systems of the rational / linear / solve families written with blanks around the operators and `==` for `=`"""
    rng = random.Random(seed * 31 + 7)
    base = {'simplify-rational-spelled': 'simplify-rational', 'simplify-linear-spelled': 'simplify-linear', 'solve-spelled': 'solve'}[family]
    spec = gen_program(base, seed)
    spec['family'] = family
    spec['text'] = respell(spec['text'], rng, equalities=(base == 'solve'))
    return spec


SHADOW_NAMES = ['e', 'tau', 'gamma', 'size']      # legal variable names that numpy / math also export


def gen_named(family, seed):
    """systems whose VARIABLES are named like objects numpy / math export (given through variables=[...])"""
    base = {'simplify-rational-named': 'simplify-rational', 'simplify-linear-named': 'simplify-linear'}[family]
    k = 0
    while True:
        spec = gen_program(base, seed * 7 + k)
        k += 1
        # (no exponent literals: the library replaces variable names textually, so a variable `e` and a literal `4e-08`
        #  cannot live in one text -- a documented limitation, not what this family is about)
        if 'variables' not in spec['kwds'] and not re.search(r'x1\d|x[4-9]', spec['text']) and not re.search(r'\d[eE][-+]?\d', spec['text']):
            break
    text = spec['text']
    for i in (3, 2, 1, 0):
        text = re.sub(r'\bx%d\b' % i, SHADOW_NAMES[i], text)
    used = [n for n in SHADOW_NAMES if re.search(r'\b%s\b' % n, text)]
    kw = dict(spec['kwds'], variables=list(SHADOW_NAMES))
    if 'target' in kw:
        kw['target'] = [SHADOW_NAMES[int(t[1:])] for t in kw['target'] if t[1:].isdigit() and int(t[1:]) < 4]
        if not kw['target']:
            del kw['target']
    spec.update(family=family, text=text, kwds=kw)
    if spec.get('factor'):
        spec['factor'] = SHADOW_NAMES[int(spec['factor'][1:])]
    return spec


def gen_matrix(family, seed):
    rng = random.Random(seed)
    n = rng.choice([1, 2, 3, 4, 12])
    var = rng.choice([None, None, 'y', 'names'])
    if var == 'names':
        var = (['a', 'ab', 'b', 'ba'] + ['v%d' % i for i in range(12)])[:n]
    spec = {'family': family, 'rseed': seed, 'variables': var}
    val = lambda: rng.choice([0, 0.0, -0.0, 1, -2, 3.5, -0.25, 0.1, -0.3, 1e8, -1e-8, 2.5e22, 1 / 3.0, 7, -9.0])
    if family == 'linear_symbolic':
        me, mi = rng.randint(0, 3), rng.randint(0, 3)
        if me + mi == 0:
            me = 1
        spec.update(A=[[val() for _ in range(n)] for _ in range(me)] or None, b=[val() for _ in range(me)] or None,
                    G=[[val() for _ in range(n)] for _ in range(mi)] or None, h=[val() for _ in range(mi)] or None)
        if mi == 1 and rng.random() < .5:
            spec['G'] = spec['G'][0]                      # documented 1-D form
        spec['ndarray'] = rng.random() < .3
        # the other accepted argument shapes (own generator, the draws above keep their values): right-hand sides given as
        # ONE ROW [[b0, b1, ..]] (the code flattens it), a single equality given as a 1-D A
        r2 = random.Random(seed * 37 + 11)
        if me and r2.random() < .35:
            spec['b'] = [spec['b']]
        if mi and r2.random() < .25:
            spec['h'] = [spec['h']]
        if me == 1 and r2.random() < .4:
            spec['A'] = spec['A'][0]
        if me and seed % 5 == 0:
            # every fifth case: ONE equality whose right-hand side is given as [[b0]] (row form of a single value)
            a0 = spec['A'] if not isinstance(spec['A'][0], list) else spec['A'][0]
            b0 = spec['b'][0][0] if isinstance(spec['b'][0], list) else spec['b'][0]
            spec['A'], spec['b'] = ([a0] if seed % 2 else a0), [[b0]]
    else:
        lo, hi = [], []
        for _ in range(n):
            a, b = sorted([float(val()), float(val())])
            a, b = rng.choice([a, a, None, '-inf']), rng.choice([b, b, None, 'inf'])
            if a not in (None, '-inf') and rng.random() < .2:
                b = a                                     # degenerate side
            lo.append(a)
            hi.append(b)
        spec.update(min=lo, max=hi)
    return spec


# ----------------------------------------------------------------------------- lines that meet on a boundary
OPPOSED = [('>', '<'), ('<', '>'), ('>=', '<='), ('<=', '>='), ('>', '<='), ('>=', '<'), ('<', '>='), ('<=', '>')]
STRICT = ('<', '>')


def _pair_kind(c1, c2, apart):
    """names the situation of two relations 'v c1 r', 'v c2 r(+delta)' (used as violation sub-case)"""
    if (c1, c2) in OPPOSED:
        k = {0: 'nonstrict-nonstrict', 1: 'strict-nonstrict', 2: 'strict-strict'}[(c1 in STRICT) + (c2 in STRICT)]
    elif c1 in STRICT + ('<=', '>=') and c2 in STRICT + ('<=', '>='):
        k = 'same-direction'
    else:
        k = 'with-equality' if {c1, c2} & {'=', '=='} else 'with-unequal'
    return k + ('-apart' if apart else '')


def _side(rng, terms, const):
    terms = [(c, v) for c, v in terms if c]
    if not terms:
        return _num(const)
    s = _terms(rng, terms)
    return s if not const else s + (' + ' if const > 0 else ' - ') + _num(abs(const))


def _bound_line(rng, v, cmp, terms, const, style):
    """a differently scaled / shifted / rearranged text of the relation  v cmp sum(terms) + const"""
    k = rng.choice([1, 2, 3, 4, -1, -2, -3] + ([0.5, -0.5, 1.5, 0.25] if style == 'frac' else []))
    d = rng.choice([0, 0, 0, 1, -1, 2, 5, -7])
    moved = [t for t in terms if rng.random() < .4]
    left = [(k, v)] + [(-k * c, x) for c, x in moved]
    right = [(k * c, x) for c, x in terms if (c, x) not in moved]
    if k == 1 and rng.random() < .5:
        rng.shuffle(left)
    cmp = cmp if k > 0 else FLIP[cmp]
    l, r = _side(rng, left, d), _side(rng, right, k * const + d)
    return '%s %s %s' % ((r, FLIP[cmp], l) if rng.random() < .25 else (l, cmp, r))


def _same_sides(lines):
    """two lines with textually identical sides (the situation of #opposed-pair; kept out of the new families)"""
    parts = [split_line(l) for l in lines]
    return any(((a1, b1) == (a2, b2) and c1 != c2) or (a1, b1) == (b2, a2)
               for i, (a1, c1, b1) in enumerate(parts) for a2, c2, b2 in parts[i + 1:])


def _constant_line(line):
    """the variables cancel in lhs - rhs (numerator constant): the situation of #line-dropped"""
    _, n, d, _ = relation(line)
    return not any(m for m in n)


def gen_boundary(family, seed):
    rng = random.Random(seed)
    style = rng.choice(['int', 'int', 'int', 'frac'])
    nv = rng.randint(1, 3)
    names, kw = _naming(rng, nv)
    v = rng.choice(names)
    oth = [x for x in names if x != v]
    while True:
        terms = [(rng.choice([1, 2, 3, -1, -2]), x) for x in oth if rng.random() < .5]
        const = rng.choice([0, 1, 2, 3, 5, -1, -4, 7])
        c1, c2 = rng.choice(OPPOSED) if rng.random() < .75 else (rng.choice(ALLCMP), rng.choice(ALLCMP))
        delta = 0 if rng.random() < .7 else rng.choice([1, -1, 2, -3])
        lines = [_bound_line(rng, v, c1, terms, const, style), _bound_line(rng, v, c2, terms, const + delta, style)]
        kind = _pair_kind(c1, c2, delta != 0)
        if rng.random() < .25:                            # a third relation on the same boundary
            lines.append(_bound_line(rng, v, rng.choice(ALLCMP), terms, const, style))
            kind = 'three-on-boundary' + ('-apart' if delta else '')
        for _ in range(rng.choice([0, 0, 1, 2])):
            lines.append(_linear_line(rng, names, 'int'))
        rng.shuffle(lines)
        if not _same_sides(lines) and not any(_constant_line(l) for l in lines):
            break
    kw['all'] = rng.random() < .8
    if rng.random() < .25:
        kw['cycle'] = True
    if rng.random() < .2:
        kw['target'] = rng.sample(names, len(names))
    return {'family': family, 'rseed': seed, 'style': style, 'text': '\n'.join(lines), 'kwds': kw,
            'pair': kind}


def gen_shared_sign(family, seed):
    """two or more rational relations whose direction depends on the sign of the SAME variable"""
    rng = random.Random(seed)
    style = rng.choice(['int', 'int', 'int', 'frac'])
    nv = rng.randint(2, 4)
    names, kw = _naming(rng, nv)
    xk = rng.choice(names)
    oth = [x for x in names if x != xk]
    forms = ['%(a)s/%(xk)s %(cmp)s %(c)s', '%(a)s/%(xk)s + %(b)s %(cmp)s %(c)s', '%(xi)s/%(xk)s %(cmp)s %(c)s',
             '%(a)s*%(xi)s/%(xk)s + %(b)s %(cmp)s %(c)s', '%(c)s %(cmp)s %(a)s*%(xi)s/%(xk)s',
             '%(xi)s %(cmp)s %(c)s/%(xk)s', '%(a)s*%(xi)s %(cmp)s %(c)s/%(xk)s + %(b)s',
             '%(a)s*%(xi)s/%(xk)s**2 %(cmp)s %(c)s']
    if len(oth) > 1:
        forms += ['%(xi)s/%(xk)s + %(b)s %(cmp)s %(c)s*%(xj)s', '(%(a)s*%(xi)s + %(b)s*%(xj)s)/%(xk)s %(cmp)s %(c)s']
    while True:
        lines = []
        for _ in range(rng.choice([2, 2, 2, 3])):
            xi = rng.choice(oth)
            xj = rng.choice([x for x in oth if x != xi] or [None])
            lines.append(rng.choice(forms) % dict(a=_num(_coef(rng, style)), b=_num(_coef(rng, style)),
                                                  c=_num(_coef(rng, style)), xi=xi, xj=xj, xk=xk,
                                                  cmp=rng.choice(ALLCMP if rng.random() < .3 else ['<', '>', '<=', '>='])))
        if rng.random() < .3:
            lines.append(_linear_line(rng, oth, 'int'))
        if rng.random() < .2:                             # a plain bound on the sign variable itself
            lines.append('%s %s %s' % (xk, rng.choice(['<', '>', '<=', '>=']), rng.choice(['0', '0', '1', '-2'])))
        rng.shuffle(lines)
        if not _same_sides(lines) and not any(_constant_line(l) for l in lines):
            break
    kw['all'] = True
    return {'family': family, 'rseed': seed, 'style': style, 'text': '\n'.join(lines), 'kwds': kw, 'factor': xk,
            'pair': 'shared-sign-variable'}


MERGE_SIDES = ['A', 'B', 'x0', 'x0 + x1', '2*x1', 'x0/x1', 'A - B']
MERGE_RHS = ['0', '0', '1', '-1', '3', '2.5', 'B', 'x1', '2*x1 + 1']


def gen_merge(family, seed, index):
    """bounds 'X cmp r' for symbolic.merge(inclusive=False); index < 147: every comparator pair on one side with equal
    / increasing / decreasing right-hand sides, then seeded sequences of 2-5 bounds over 1-2 sides"""
    rng = random.Random(seed)
    if index < len(ALLCMP) ** 2 * 3:
        c1, c2 = ALLCMP[index % 7], ALLCMP[index // 7 % 7]
        r1, r2 = [('0', '0'), ('1', '2'), ('2', '1')][index // 49]
        bounds = ['A %s %s' % (c1, r1), 'A %s %s' % (c2, r2)]
    else:
        sides = rng.sample(MERGE_SIDES, rng.choice([1, 1, 2]))
        rhs = rng.sample(MERGE_RHS, rng.choice([1, 1, 2]))
        bounds = ['%s %s %s' % (rng.choice(sides), rng.choice(ALLCMP if rng.random() < .4 else ['<', '>', '<=', '>=']),
                                rng.choice(rhs)) for _ in range(rng.randint(2, 5))]
    return {'family': family, 'rseed': seed, 'bounds': bounds}


# ----------------------------------------------------------------------------- named constants (locals=)
def _preloaded_constants():
    """names of the float constants that `math` / `numpy` export (what simplify / solve document as preloaded)"""
    import math
    import numpy
    return sorted({k for mod in (math, numpy) for k, v in vars(mod).items()
                   if isinstance(v, float) and not k.startswith('_')})


ORDINARY = ['k', 'w', 'c0', 'rate', 'alpha', 'lam', 'K']
PRELOADED_FUNCS = ['gamma', 'sum', 'mean']                # preloaded callables / builtins used as constant names
LIT = re.compile(r'(?<![\w.])\d+(?:\.\d*)?(?:[eE][+-]?\d+)?(?![\w.])')
CONST_BASES = ['simplify-linear'] * 7 + ['simplify-rational'] * 4 + ['simplify-boundary'] * 5 + \
              ['simplify-shared-sign'] * 3      # (products a*xi*xk keep their own family: constants add nothing there)


def _usable_names(rng, varnames, kw):
    """constant names that are no variable, do not look like one (base + digits) and contain no variable name"""
    base = kw.get('variables') if isinstance(kw.get('variables'), str) else (None if 'variables' in kw else 'x')
    ok = lambda c: c not in varnames and not any(v in c for v in varnames) and \
        not (base and re.match(r'^%s\d+$' % re.escape(base), c))
    pre = [c for c in _preloaded_constants() if ok(c)]
    return pre, [c for c in ORDINARY if ok(c)], [c for c in PRELOADED_FUNCS if ok(c)]


def _abstract(text, rng, varnames, kw):
    """replace 1-4 numeric literals of the text (never an exponent) by named constants -> (text, {name: value});
    the value is the literal as python reads it (int stays int), or - with the sign moved into the constant -
    its negative: '-2*x' -> 'c*x', ' - 2*x' -> ' + c*x', ' + 2*x' -> ' - c*x', '2*x' -> '-c*x' (c = -2);
    equal values share a name in 70%"""
    pre, plain, funcs = _usable_names(rng, varnames, kw)
    lines = text.split('\n')
    sites = [(i, m.start()) for i, l in enumerate(lines) for m in LIT.finditer(l)
             if not l[:m.start()].rstrip().endswith('**')]
    chosen = set(rng.sample(sites, rng.randint(1, min(4, len(sites))))) if sites else set()
    consts, byval, out_lines = {}, {}, []
    for i, l in enumerate(lines):
        out, pos = '', 0
        for m in LIT.finditer(l):
            out += l[pos:m.start()]
            pos = m.end()
            if (i, m.start()) not in chosen:
                out += m.group()
                continue
            val = ast.literal_eval(m.group())
            absorb = rng.random() < .4
            sign = re.search(r'([-+])\s*$', out)
            head = out[:sign.start()] if sign else out
            hs = head.rstrip()
            binary = bool(sign) and bool(hs) and (hs[-1].isalnum() or hs[-1] in ')_.')
            new, nval = None, val
            if absorb and sign and sign.group(1) == '-':
                new, nval = (hs + ' + ' if binary else head), -val
            elif absorb and sign and binary:
                new, nval = hs + ' - ', -val
            elif absorb and not sign and not hs.endswith(('*', '/')):
                new, nval = out + '-', -val
            if new is None:
                new, nval = out, val
            tkey = (type(nval).__name__, nval)
            name = byval.get(tkey) if rng.random() < .7 else None
            if name is None:
                r_ = rng.random()
                pool = [c for c in (pre if r_ < .65 else plain if r_ < .9 else funcs) if c not in consts] or \
                       [c for c in pre + plain if c not in consts]
                if not pool:
                    out += m.group()
                    continue
                name = rng.choice(pool)
                consts[name] = nval
                byval[tkey] = name
            out = new + name
        out_lines.append(out + l[pos:])
    if rng.random() < .2:                                  # an entry of locals that the text does not use
        free = [c for c in pre + plain if c not in consts]
        if free:
            consts[rng.choice(free)] = rng.choice([2, -3, 0.5, -1.25])
    return '\n'.join(out_lines), consts


def gen_constants(family, seed):
    """a system of one of the other families in which some coefficients / right-hand sides are named constants
    whose values the caller supplies through the documented `locals` option"""
    rng = random.Random(seed)
    base = 'solve' if family == 'solve-constants' else rng.choice(CONST_BASES)
    sub = rng.randrange(10 ** 9)
    while True:
        spec = GENS.get(base, gen_program)(base, sub)
        kw = dict(spec['kwds'])
        varnames = kw['variables'] if isinstance(kw.get('variables'), list) else names_of([_lines(spec['text'])])
        text, consts = _abstract(spec['text'], rng, list(varnames), kw)
        plain = [_subst(l, consts) for l in _lines(text)]
        if base == 'solve' or not (_same_sides(plain) or any(_constant_line(l) for l in plain)):
            break                                         # (those are the situations #opposed-pair / #line-dropped)
        sub += 1
    kw['locals'] = consts
    spec.update(family=family, base=base, rseed=seed, text=text, kwds=kw)
    if random.Random(seed * 17 + 3).random() < 0.35:
        # the same text was simplified / solved before with OTHER values of the named constants (a caller looping over
        # parameter values): the later call must answer for its own values
        spec['prior_locals'] = {k_: ((-v if v else 1.5) if isinstance(v, (int, float)) and not isinstance(v, bool) else v)
                                for k_, v in consts.items()}
    return spec


class _Sub(ast.NodeTransformer):
    def __init__(self, consts):
        self.consts = consts

    def visit_Name(self, node):
        if node.id not in self.consts:
            return node
        v = self.consts[node.id]
        neg = v < 0 or (isinstance(v, float) and str(v)[0] == '-')
        c = ast.Constant(-v if neg else v)
        return ast.UnaryOp(ast.USub(), c) if neg else c


def _subst(line, consts):
    """the relation with every named constant replaced by the CALLER'S value (literal of exactly that number)"""
    lhs, cmp, rhs = split_line(line)
    side = lambda s: ast.unparse(ast.fix_missing_locations(_Sub(consts).visit(ast.parse(s, mode='eval'))))
    return '%s %s %s' % (side(lhs), cmp, side(rhs))


# ----------------------------------------------------------------------------- one program
def _lines(text):
    return [l.strip() for l in text.split('\n') if l.strip()]


def _unf(v):
    return float(v) if isinstance(v, str) else v


def check(spec, res, stats):
    fam = spec['family']
    seed_all(spec['rseed'])
    import mystic.symbolic as ms
    key = 'C12/bounded/%s/same-solution-set' % fam
    exact_only, extra_names = False, ()
    kwds = dict(spec.get('kwds') or {})
    consts = kwds.get('locals')                            # named constants: the caller's values define the system
    if consts is not None:
        kwds['locals'] = dict(consts)
    old = signal.signal(signal.SIGALRM, _alarm)
    signal.alarm(CALL_LIMIT)
    try:
        with contextlib.redirect_stdout(io.StringIO()):
            if spec.get('prior_locals') is not None:
                try:
                    (ms.simplify if fam.startswith('simplify') else ms.solve)(spec['text'], **dict(kwds, locals=dict(spec['prior_locals'])))
                except Exception:      # noqa -- the earlier call's own outcome is not what is judged here
                    pass
            if fam.startswith('simplify'):
                out = ms.simplify(spec['text'], **kwds)
                in_lines = _lines(spec['text'])
                if out is None:                           # documented: 'No solution'
                    cases = []
                elif spec['kwds'].get('all') or isinstance(out, str):
                    cases = [_lines(o) for o in ((out,) if isinstance(out, str) else out)]
                else:
                    raise TypeError('simplify(all=False) returned %r' % (out,))
                if spec['kwds'].get('all') is False and len(cases) > 1:
                    cases = None
            elif fam == 'merge':
                out = ms.merge(*spec['bounds'], inclusive=False)
                in_lines = list(spec['bounds'])
                if out is not None and not (isinstance(out, tuple) and all(isinstance(o, str) for o in out)):
                    raise TypeError('merge returned %r' % (out,))
                cases, exact_only = ([] if out is None else [[o for o in out]]), True
                key = 'C12/bounded/merge/conjunction-of-bounds'
            elif fam.startswith('solve'):
                out = ms.solve(spec['text'], **kwds)
                in_lines = _lines(spec['text'])
                if not isinstance(out, str) or not out.strip():
                    raise ValueError('solve returned %r' % (out,))
                cases = [_lines(out)]
            elif fam == 'linear_symbolic':
                import numpy as np
                conv = (lambda m: None if m is None else np.array(m, dtype=float)) if spec['ndarray'] else (lambda m: m)
                A, b, G, h = (spec[k] for k in 'AbGh')
                var = spec['variables']
                out = ms.linear_symbolic(conv(A), conv(b), conv(G), conv(h), variables=var)
                G2 = [G] if G and not isinstance(G[0], list) else (G or [])
                A2 = [A] if A and not isinstance(A[0], list) else (A or [])
                b2 = b[0] if b and isinstance(b[0], list) else (b or [])
                h2 = h[0] if h and isinstance(h[0], list) else (h or [])
                n = len((A2 or G2)[0])
                nm = var if isinstance(var, list) else [(var or 'x') + str(i) for i in range(n)]
                row = lambda r, c, v: '%s %s %r' % (' + '.join('%r*%s' % (float(a), x) for a, x in zip(r, nm)), c, float(v))
                in_lines = [row(r, '==', v) for r, v in zip(A2, b2)] + \
                           [row(r, '<=', v) for r, v in zip(G2, h2)]
                cases, exact_only, extra_names = [_lines(out)], True, nm
            else:
                var = spec['variables']
                lo, hi = [_unf(v) for v in spec['min']], [_unf(v) for v in spec['max']]
                out = ms.symbolic_bounds(list(lo), list(hi), variables=var)
                nm = var if isinstance(var, list) else [(var or 'x') + str(i) for i in range(len(lo))]
                inf = float('inf')
                in_lines = ['%s >= %r' % (x, float(v)) for x, v in zip(nm, lo) if v is not None and v != -inf] + \
                           ['%s <= %r' % (x, float(v)) for x, v in zip(nm, hi) if v is not None and v != inf]
                cases, exact_only, extra_names = [_lines(out)], True, nm
    except Exception as e:                                 # no result returned: outside the property
        stats.setdefault('aborted', []).append('%s: %s: %s' % (fam, type(e).__name__, str(e)[:80]))
        res.case(key + '|aborted', False)
        return
    finally:
        signal.alarm(0)
        signal.signal(signal.SIGALRM, old)
    if cases is None:
        stats['aborted'] = stats.get('aborted', []) + ['%s: all=False gave one of several alternatives' % fam]
        res.case(key + '|one-of-many', False)
        return
    if consts:
        try:
            in_lines, cases = [_subst(l, consts) for l in in_lines], [[_subst(l, consts) for l in c] for c in cases]
        except (ValueError, SyntaxError) as e:
            stats.setdefault('unparsed', []).append('%s: %r -> %r: %s' % (fam, spec.get('text'), out, str(e)[:80]))
            res.case(key + '|unparsed', False)
            return
    if fam.startswith('solve') and not zsat([relation(l) for l in in_lines], names_of([in_lines])):
        stats['inconsistent_skipped'] = stats.get('inconsistent_skipped', 0) + 1     # outside the class
        return
    try:
        if 'factor' in spec and any(d and any(v != spec['factor'] for m in d for v, _ in m)
                                    for c in cases for _, _, d, _ in map(relation, c)):
            stats['outside_class_second_factor'] = stats.get('outside_class_second_factor', 0) + 1
            res.case(key + '|second-factor', False)       # simplify isolated a variable with a variable coefficient
            return
        bad = validate(in_lines, cases, exact_only, stats, extra_names, gscale=fam.startswith('solve'))
    except (ValueError, SyntaxError) as e:
        if fam in ('linear_symbolic', 'symbolic_bounds'):
            # the input is a matrix / a box (always inside the class): text that is not a system of linear relations over
            # the variables "holds" nowhere
            res.violation(key + '/text-is-not-a-linear-system', '%s(%s) gave %r: %s' % (fam, jsonable({k: spec.get(k) for k in 'AbGh'} if
                          fam == 'linear_symbolic' else {'min': spec.get('min'), 'max': spec.get('max')}), out, str(e)[:120]), jsonable(spec))
            return
        stats.setdefault('unparsed', []).append('%s: %r -> %r: %s' % (fam, spec.get('text'), out, str(e)[:80]))
        res.case(key + '|unparsed', False)
        return
    stats['programs'] = stats.get('programs', 0) + 1
    shown = {'in': in_lines, 'out': cases, 'kwds': spec.get('kwds')}
    if consts:
        shown['text'] = spec['text']
    res.case('%s|%s%s' % (key, spec.get('text') or jsonable(spec), ' with %s' % sorted(consts.items()) if consts else ''),
             sorted(cases[0]) != sorted(in_lines) if fam == 'merge' and cases else cases != [in_lines], shown)
    if bad is None:
        return
    mode, pt, confirmed = bad
    if not confirmed:
        stats.setdefault('unconfirmed', []).append('%s: %r at %s' % (fam, in_lines, pt))
        return
    cond = re.compile(r'^%s\s*(!=|<|>)\s*0$' % re.escape(spec.get('factor', '?')))
    dropped = fam.startswith('simplify') and any(len([l for l in c if not cond.match(l)]) < len(in_lines) for c in cases)
    tag = '#opposed-pair' if (fam == 'simplify-opposed' and not spec.get('scaled')) else '#line-dropped' if dropped else '#' + mode
    if fam in NEW_FAMILIES:                                # sub-case = generated situation + which side has the point
        side = 'extra-points' if not all(line_status(l, pt, 0)[0] for l in in_lines) else 'lost-points'
        if fam == 'merge':
            sit = 'none-returned' if out is None else _merge_situation(in_lines)
        else:                                              # (the generators admit no #opposed-pair / #line-dropped input)
            sit = spec['pair']
        tag = '#%s-%s' % (sit, side)
    if fam == 'simplify-product':
        # the situations in which simplify is known to mis-handle a product of two variables (finding F42): the
        # disagreement point has the factor variable at zero (those points are lost: 0 cmp c is decided for ALL values
        # of the other variable), or the relation reduces to  product cmp 0  (a bare sign condition on one variable is
        # returned); any other disagreement keeps the plain #exact / #band key and is reported
        fz = any(Fr(pt.get(v, 1)) == 0 for v in pt)
        zero_rhs = False
        try:                                               # constant part of lhs - rhs: every variable at zero
            m = re.match(r'^(.*?)(==|<=|>=|!=|=|<|>)(.*)$', in_lines[0])
            env0 = {v: 0.0 for v in re.findall(r'[A-Za-z_][A-Za-z_0-9]*', in_lines[0])}
            zero_rhs = eval(m.group(1), {'__builtins__': {}}, env0) - eval(m.group(3), {'__builtins__': {}}, env0) == 0
        except Exception:                                  # noqa -- unparsable: keep the plain key
            pass
        tag = '#product-compared-with-zero' if zero_rhs else '#point-with-a-zero-factor' if fz else tag
    if fam in CONST_FAMILIES and not dropped:              # sub-case = kind of system + do preloaded names occur
        tag = '#%s-%s-%s' % (spec['base'], 'preloaded-name' if set(consts) & set(_preloaded_constants() + PRELOADED_FUNCS)
                             else 'ordinary-names', mode)
    res.violation(key + tag, 'input %r and result %r disagree (%s) at %s%s' % (
        in_lines, cases, mode, {k: str(v) for k, v in pt.items()},
        ' [text %r, result %r, with the caller\'s locals=%r substituted]' % (spec['text'], out, consts) if consts else ''),
        jsonable(spec))


def _merge_situation(bounds):
    """which comparators sit on one and the same (side, right-hand side) text"""
    groups = {}
    for b in bounds:
        l, c, r = split_line(b)
        groups.setdefault((l, r), set()).add(c)
    g = max(groups.values(), key=len)
    if len(g) < 2:
        return 'distinct-bounds'
    pairs = [(a, b) for a in g for b in g if (a, b) in OPPOSED]
    if not pairs:
        return 'same-text-mixed'
    n = max((a in STRICT) + (b in STRICT) for a, b in pairs) if len(g) == 2 else None
    return {0: 'nonstrict-nonstrict', 1: 'strict-nonstrict', 2: 'strict-strict', None: 'three-or-more'}[n]


NEW_FAMILIES = ('simplify-boundary', 'simplify-shared-sign', 'merge')
CONST_FAMILIES = ('simplify-constants', 'solve-constants')


def _alarm(*a):
    raise TimeoutError('mystic call exceeded %d s' % CALL_LIMIT)


CALL_LIMIT = 60


def _work(spec):
    if mp.current_process().name != 'MainProcess':       # mystic's fallback can enumerate 12! permutations
        resource.setrlimit(resource.RLIMIT_AS, (3 * 2 ** 30, 3 * 2 ** 30))
    res, stats = Result('', ''), {}
    check(spec, res, stats)
    return res.part(), stats


COUNTS = {'quick': {'simplify-linear': 24, 'simplify-opposed': 8, 'simplify-rational': 12, 'simplify-product': 4,
                    'solve': 12, 'linear_symbolic': 24, 'symbolic_bounds': 24,
                    'simplify-boundary': 48, 'simplify-shared-sign': 24, 'merge': 147 + 80,
                    'simplify-constants': 64, 'solve-constants': 16, 'solve-literals': 24,
                    'simplify-rational-spelled': 24, 'simplify-linear-spelled': 12, 'solve-spelled': 16,
                    'simplify-rational-named': 24, 'simplify-linear-named': 8},
          'thorough': {'simplify-linear': 680, 'simplify-opposed': 70, 'simplify-rational': 300,
                       'simplify-product': 50, 'solve': 400, 'linear_symbolic': 400, 'symbolic_bounds': 400,
                       'simplify-boundary': 400, 'simplify-shared-sign': 200, 'merge': 147 + 1200,
                       'simplify-constants': 600, 'solve-constants': 150, 'solve-literals': 300,
                       'simplify-rational-spelled': 300, 'simplify-linear-spelled': 150, 'solve-spelled': 200,
                       'simplify-rational-named': 300, 'simplify-linear-named': 100}}
GENS = {'linear_symbolic': gen_matrix, 'symbolic_bounds': gen_matrix, 'simplify-boundary': gen_boundary,
        'simplify-shared-sign': gen_shared_sign, 'simplify-constants': gen_constants,
        'solve-constants': gen_constants, 'solve-literals': gen_solve_literals,
        'simplify-rational-spelled': gen_spelled, 'simplify-linear-spelled': gen_spelled, 'solve-spelled': gen_spelled,
        'simplify-rational-named': gen_named, 'simplify-linear-named': gen_named}
LATE_FAMILIES = ('solve-literals', 'simplify-rational-spelled', 'simplify-linear-spelled', 'solve-spelled',
                 'simplify-rational-named', 'simplify-linear-named')


def run(tier='quick', seed=0):
    res = Result(
        rule='seeded generator of constraint systems: simplify (1-4 variables, 1-4 lines, comparators == = <= >= < > '
             '!=, integer / fractional / 1e+-8 coefficients, terms on both sides, pairs of lines with the same two sides (also scaled by a constant) and opposite comparators, naming x0.., sparse two-digit '
             'indices, base y, name lists incl. prefixes of each other; options all/cycle/target), single-factor '
             'rational and product relations (all=True, every returned case with its sign conditions; a point where '
             'the input divides by zero does not satisfy it), solve on consistent linear equality systems, '
             'linear_symbolic / symbolic_bounds on random matrices / boxes (exact, incl. 12 variables, None/inf '
             'sides, -0.0, 1e22).  Each literal is read as the exact value python gives it.  Per program z3 decides '
             'over ALL points whether input and (disjunction of cases) differ: first exactly; only if that fails and '
             'a float literal occurs, with the tolerance band eps=1e-9*sum|monomials of lhs-rhs|: a relation is '
             'sure-true if it holds and |lhs-rhs|>=eps*scale (equalities: if it holds), sure-false if it fails and '
             '|lhs-rhs|>=eps*scale (!=: if it fails); violation = sure-true input with sure-false output or the '
             'converse, confirmed by direct evaluation of the texts at the z3 model with Fractions.  For solve the '
             'scale of every relation additionally contains sum|x_v| + sum|constants of the system| (elimination '
             'error is relative to the system, not to one solved line).  Outputs whose conditions involve a second '
             'variable factor are counted outside the class.  Sub-cases: #opposed-pair (two lines with identical '
             'sides and opposite comparators), #line-dropped (a returned case has fewer relations than the input '
             'has lines), else #exact / #band.  A distinct '
             'case is a distinct program text; non-trivial = the returned text differs from the input.  '
             'simplify-boundary: two (25%: three) differently scaled / shifted / rearranged / side-swapped texts of '
             'v c1 r, v c2 r+delta (r: integer constant or integer combination of the other variables; delta = 0 in '
             '70%; (c1,c2) in 75% an opposed pair strict/strict, strict/non-strict, non-strict/non-strict, else any '
             'two comparators) plus 0-2 random linear lines, options all/cycle/target; the lines meet or contradict '
             'only after isolation.  simplify-shared-sign: 2-3 single-factor rational relations (incl. the factor as '
             'divisor on the right-hand side) over the SAME sign variable, optionally a linear line and a plain bound '
             'on the sign variable, all=True.  Both generators reject systems with two lines of textually identical '
             'sides (that is #opposed-pair) and lines whose variables cancel (that is #line-dropped); their '
             'violations carry #<situation>-extra-points (the witness fails the input and satisfies the result) or '
             '#<situation>-lost-points, situation = strict-strict / strict-nonstrict / nonstrict-nonstrict / '
             'same-direction / with-equality / with-unequal [-apart when delta != 0] / three-on-boundary / '
             'shared-sign-variable.  merge: symbolic.merge(*bounds, inclusive=False) (the conjunctive mode simplify '
             'uses to combine lines and cases; inclusive=True is documented to cancel B >= 0, B <= 0 and is not a '
             'conjunction) against its documented meaning: None only if no point satisfies all bounds, otherwise the '
             'returned bounds hold exactly where all given bounds hold (so an unsatisfiable input needs None or an '
             'unsatisfiable result); all 7x7 comparator pairs on one side with equal / increasing / decreasing '
             'right-hand sides (147, complete), then seeded sequences of 2-5 bounds over 1-2 side texts and 1-2 '
             'right-hand sides; sub-case = comparators that sit on one (side, rhs) text, or none-returned.  '
             'simplify-constants / solve-constants: a system of the families simplify-linear / -rational / -boundary / '
             '-shared-sign (7:4:5:3) resp. solve in which 1-4 numeric literals (coefficients, right-hand sides, numerators; '
             'never an exponent) are replaced by named constants whose values are passed through the documented option '
             'locals= (\'additional variables used in the constraints equations, and their desired values\'); the value '
             'is the literal (int stays int) or, with the sign moved into the constant, its negative; equal values '
             'share a name in 70%; names: 65% the float constants that math / numpy export (e, pi, tau, inf, nan, '
             'euler_gamma: names simplify / solve preload), 25% ordinary names, 10% preloaded callables (gamma, sum, '
             'mean); a name is never a variable, never of the form base+digits, and contains no variable name; 20% '
             'carry an unused extra entry in locals.  Oracle: every constant name in the input AND in the returned '
             'text is replaced by a literal of exactly the CALLER\'S value, then input and result are compared over all '
             'points as for the other families (the system is defined by the caller\'s values, whatever the name also '
             'means in math / numpy).  Systems whose substituted text has two lines with identical sides or a line '
             'whose variables cancel are regenerated.  Sub-case: #<base family>-<preloaded-name|ordinary-names>-<exact|band>.',
        bound='%s tier: %s programs per family, seed-derived' % (tier, COUNTS[tier]))
    specs = []
    order = sorted(f for f in COUNTS[tier] if f not in NEW_FAMILIES + CONST_FAMILIES + LATE_FAMILIES) + \
        list(NEW_FAMILIES + CONST_FAMILIES + LATE_FAMILIES)   # earlier families keep their seeds
    for fi, fam in enumerate(order):
        n, gen = COUNTS[tier][fam], GENS.get(fam, gen_program)
        if fam == 'merge':
            specs += [gen_merge(fam, (seed * 1000 + fi) * 100003 + i, i) for i in range(n)]
        else:
            specs += [gen(fam, (seed * 1000 + fi) * 100003 + i) for i in range(n)]
    random.Random(seed).shuffle(specs)
    tot = {}
    for part, stats in pmap(_work, specs):
        res.merge(part)
        for k, v in stats.items():
            tot[k] = tot.get(k, 0) + v if isinstance(v, int) else tot.get(k, []) + v
    res.extra['programs'] = tot.pop('programs', 0)
    res.extra['disagreements_checked'] = tot.pop('disagreements_checked', 0)
    for k in ('aborted', 'unparsed', 'unconfirmed'):
        v = tot.pop(k, [])
        res.extra[k + '_count'] = len(v)
        res.extra[k] = v[:12]
    res.extra.update(tot)
    return res.out()


def replay(inp):
    res = Result('', '')
    check(inp, res, {})
    return not res.violations
