"""C05 bounded layer: stopping discipline (limits, termination, exit requests, stop messages, wrappers' warnflag).

A scenario is a solver + a call sequence over  step / run (Step until a stop message) / solve / limits(g, e, new) /
term(spec) / exit / penalty.  A counting wrapper around the instance's `_Step` is the observation point "an iteration
begins": at that moment (after the initial evaluation) the shadow evaluates, independently of the solver's counters,
  real calls (Recorder) >= evaluation limit,  completed iterations >= generation limit,  exit requested,
  termination condition true (documented formula on the public energy_history)
and none may hold.  After every call: generations <= limit, overshoot of the evaluation limit < the evaluations of the
last iteration, and every condition named by a stop message must be true of the final state.  Solve runs under a
wall-clock guard.  Limits from {0,1,2,7,None}^2 x new x position are enumerated completely."""
import math
import random
import signal
import contextlib
import itertools
from .common import *       # noqa
from .solver_runs import make_penalty

P = 'C05/bounded'
VALS = [0, 1, 2, 7, None]
NEVER = ['VTR', 0.005, -1e300]
TERMS = {'never': NEVER, 'vtr_now': ['VTR', 1e300, 0.0], 'vtr_reach': ['VTR', 0.5, 0.0], 'cog1': ['COG', 1e-6, 1],
         'cog2': ['COG', 1e300, 2], 'cog3': ['COG', 0.05, 3], 'or': ['Or', ['VTR', 0.5, 0.0], ['COG', 0.05, 3]],
         'and': ['And', ['VTR', 50.0, 0.0], ['COG', 1e300, 2]], 'and_never': ['And', NEVER, ['COG', 1e300, 1]]}
DEFAULT_SCALE = {'NM': (200, 200), 'Powell': (1000, 1000), 'DE1': (10, 1000), 'DE2': (10, 1000)}   # documented defaults


class _Timeout(Exception):
    pass


@contextlib.contextmanager
def guard(sec):
    def handler(signum, frame):
        raise _Timeout()
    # CPU time of this process (ITIMER_VIRTUAL), not wall clock: a busy machine must not turn into "Solve never returns"
    old = signal.signal(signal.SIGVTALRM, handler)
    signal.setitimer(signal.ITIMER_VIRTUAL, sec)
    try:
        yield
    finally:
        signal.setitimer(signal.ITIMER_VIRTUAL, 0)
        signal.signal(signal.SIGVTALRM, old)


def build_term(spec):
    from mystic.termination import VTR, ChangeOverGeneration, Or, And
    if spec[0] == 'VTR':
        return VTR(spec[1], spec[2])
    if spec[0] == 'COG':
        return ChangeOverGeneration(spec[1], spec[2])
    return (Or if spec[0] == 'Or' else And)(*[build_term(t) for t in spec[1:]])


def cond_true(name, kw, hist):
    """documented definition of a named condition, evaluated on the public energy history"""
    if name == 'VTR':
        return bool(hist) and abs(hist[-1] - kw['target']) <= kw['tolerance']
    if name == 'ChangeOverGeneration':
        g = int(kw['generations'])
        return len(hist) > g and hist[-g] - hist[-1] <= kw['tolerance']
    return None


def term_true(spec, hist):
    if spec[0] == 'VTR':
        return cond_true('VTR', {'tolerance': spec[1], 'target': spec[2]}, hist)
    if spec[0] == 'COG':
        return cond_true('ChangeOverGeneration', {'tolerance': spec[1], 'generations': spec[2]}, hist)
    return (any if spec[0] == 'Or' else all)(term_true(t, hist) for t in spec[1:])


def _plain_map(f, *args, **kwds):
    return [f(*a) for a in zip(*args)]


def run_seq(sc):
    """returns dict(violations=[(clause, detail)], begun, calls, aborted)"""
    seed_all(sc['seed'])
    kind, ndim = sc['solver'], sc['ndim']
    rng = random.Random(sc['seed'])
    rec = Recorder(COSTS[sc['cost']])
    s = make_solver(kind, ndim)
    if kind in ('DE1', 'DE2'):
        s.SetRandomInitialPoints([-3.0] * ndim, [3.0] * ndim)
    else:
        s.SetInitialPoints([rng.uniform(-2.0, 2.0) for _ in range(ndim)])
    sh = dict(steps=0, G=None, E=None, exit=False, term=TERMS[sc.get('term', 'never')], n_begin=0, last=0,
              since_limit=0, op=-1, ncb=0, exit_at=None, g_at_set=0)
    s.SetTermination(build_term(sh['term']))
    if sc.get('usermap') and kind == 'DE2':
        # a user-supplied map (here an ordinary in-process one) together with a real evaluation monitor
        from mystic.monitors import Monitor
        s.SetMapper(_plain_map)
        s.SetEvaluationMonitor(Monitor())
    s.SetObjective(rec)
    viol = []

    def hist():
        return [float(np.asarray(e).ravel()[0]) for e in s.energy_history]

    def v(clause, detail):
        if sh['steps'] and s.generations != sh['steps'] - 1:
            clause += '#generations-miscounted'      # consequence of the C04 Powell bookkeeping finding
        if clause not in [c for c, _ in viol]:
            viol.append((clause, 'op %d %r: %s' % (sh['op'], sc['ops'][sh['op']] if sh['op'] >= 0 else 'setup', detail)))
    real_step = s._Step

    def watched_step(*a, **k):
        if sh['steps'] >= 1:            # "after its initial evaluation": is any stop condition true at this moment?
            it = sh['steps'] - 1
            if sh['E'] is not None and rec.n >= sh['E']:
                v('no-iteration-begun/evaluation-limit-reached', 'iteration %d begun with %d real calls, limit %r'
                  % (it + 1, rec.n, sh['E']))
            if sh['G'] is not None and it >= sh['G']:
                v('no-iteration-begun/generation-limit-reached', 'iteration %d begun, limit %r' % (it + 1, sh['G']))
            if sh['exit']:
                v('no-iteration-begun/exit-requested', 'iteration %d begun after the exit request' % (it + 1))
            if term_true(sh['term'], hist()):
                v('no-iteration-begun/termination-holds', 'iteration %d begun although %r holds on history tail %r'
                  % (it + 1, sh['term'], hist()[-4:]))
            sh['since_limit'] += 1
        sh['n_begin'] = rec.n
        real_step(*a, **k)
        sh['steps'] += 1
        sh['last'] = rec.n - sh['n_begin']
    s._Step = watched_step

    def cb(x):
        sh['ncb'] += 1
        if sh['exit_at'] is not None and sh['ncb'] == sh['exit_at']:
            s._EARLYEXIT = True          # what mystic._signal.Handler does on 'exit'
            sh['exit'] = True

    def check_message(msg):
        it = max(0, sh['steps'] - 1)
        h = hist()
        for part in str(msg).split('; '):
            if ' with ' not in part:
                continue
            name, kw = part.split(' with ', 1)
            kw = eval(kw, {'inf': INF_, 'nan': float('nan'), 'np': np})    # DE2 counters are numpy ints
            if name == 'EvaluationLimits':
                E = sh['E'] if sh['E'] is not None else kw['evaluations']
                G = sh['G'] if sh['G'] is not None else kw['generations']
                ok = rec.n >= E or it >= G
                why = 'real calls %d (limit %r), iterations %d (limit %r)' % (rec.n, E, it, G)
            elif name == 'SolverInterrupt':
                ok, why = sh['exit'], 'no exit was requested'
            else:
                ok, why = cond_true(name, kw, h), 'history tail %r' % h[-4:]
            if ok is False:
                v('stop-message-names-true-condition/' + name, 'message %r but %s' % (part, why))

    def after():
        it = max(0, sh['steps'] - 1)
        if sh['G'] is not None and s.generations > max(sh['G'], sh['g_at_set']):
            v('generations-within-limit', 'solver.generations=%r (true iterations %d; %r when the limit was set) limit %r'
              % (s.generations, it, sh['g_at_set'], sh['G']))
        if sh['E'] is not None and sh['since_limit'] and sh['steps'] >= 2 and rec.n - sh['E'] >= sh['last'] > 0:
            v('evaluation-overshoot-less-than-one-iteration', 'real calls %d, limit %r, last iteration made %d calls'
              % (rec.n, sh['E'], sh['last']))
    aborted = None
    for i, op in enumerate(sc['ops']):
        sh['op'] = i
        try:
            if op[0] == 'step':
                msg = s.Step(callback=cb)
                if msg:
                    check_message(msg)
            elif op[0] == 'run':
                for _ in range(op[1]):
                    msg = s.Step(callback=cb)
                    if msg:
                        check_message(msg)
                        break
            elif op[0] == 'solve':
                sh['exit'] = False       # Solve() starts by clearing an old request; a new one arrives via the callback
                sh['ncb'], sh['exit_at'] = 0, op[1]
                try:
                    with guard(20):
                        s.Solve(callback=cb)
                except _Timeout:
                    v('solve-returns', 'Solve still running after 20 s')
                    break
                sh['exit_at'] = None
                msg = s.Terminated(info=True)
                if msg:
                    check_message(msg)
            elif op[0] == 'limits':
                g, e, new = op[1], op[2], op[3]
                it = max(0, sh['steps'] - 1)
                sh['G'] = None if g is None else (g + it if new else g)
                sh['E'] = None if e is None else (e + rec.n if new else e)
                sh['since_limit'], sh['g_at_set'] = 0, s.generations
                s.SetEvaluationLimits(g, e, new=new)
            elif op[0] == 'term':
                sh['term'] = TERMS[op[1]]
                s.SetTermination(build_term(sh['term']))
            elif op[0] == 'exit':
                s._EARLYEXIT = True
                sh['exit'] = True
            elif op[0] == 'penalty':
                s.SetPenalty(make_penalty(op[1])[0])
            else:
                raise ValueError(op)
        except _Timeout:
            raise
        except Exception as e:      # noqa -- an exception is not a violation of C05: scenario aborted
            aborted = '%s %s: %s at op %d %r' % (kind, type(e).__name__, e, i, op)
            break
        after()
    return {'violations': viol, 'begun': sh['steps'], 'calls': rec.n, 'aborted': aborted}


INF_ = float('inf')


def run_wrapper(sc):
    """fmin / fmin_powell / diffev / diffev2 with full_output=1: the warnflag must name a true condition"""
    seed_all(sc['seed'])
    from mystic.solvers import fmin, fmin_powell, diffev, diffev2
    rec = Recorder(COSTS[sc['cost']])
    ncb = [0]
    n, mi, mf, w = sc['ndim'], sc['maxiter'], sc['maxfun'], sc['which']

    def cb(x):
        ncb[0] += 1
    viol = []
    rng = random.Random(sc['seed'])
    x0 = [rng.uniform(-2.0, 2.0) for _ in range(n)]
    try:
        with guard(30):
            if w == 'fmin':
                out = fmin(rec, x0, maxiter=mi, maxfun=mf, full_output=1, disp=0, callback=cb)
            elif w == 'fmin_powell':
                out = fmin_powell(rec, x0, maxiter=mi, maxfun=mf, full_output=1, disp=0, callback=cb)
            else:
                out = (diffev if w == 'diffev' else diffev2)(rec, [(-3.0, 3.0)] * n, npop=8, maxiter=mi, maxfun=mf,
                                                             full_output=1, disp=0, callback=cb)
    except _Timeout:
        return {'violations': [('solve-returns', '%s still running after 30 s' % w)], 'begun': ncb[0], 'calls': rec.n,
                'aborted': None}
    except Exception as e:      # noqa
        return {'violations': [], 'begun': ncb[0], 'calls': rec.n, 'aborted': '%s %s: %s' % (w, type(e).__name__, e)}
    flag, rep_iters = out[4], out[2]
    npop = 8 if w.startswith('diffev') else 1
    sc_i, sc_e = DEFAULT_SCALE[{'fmin': 'NM', 'fmin_powell': 'Powell'}.get(w, 'DE1')]
    MI = mi if mi is not None else n * npop * sc_i
    MF = mf if mf is not None else n * npop * sc_e
    iters = max(0, ncb[0] - 1)          # one callback per _Step, the first one being the initial evaluation
    want = 1 if rec.n >= MF else (2 if iters >= MI else 0)
    if flag != want:
        sub = '#generations-miscounted' if rep_iters != iters else ''
        viol.append(('warnflag-names-true-condition' + sub, 'warnflag %r expected %r: real calls %d (maxfun %r), '
                     'iterations %d by callbacks / %r reported (maxiter %r)' % (flag, want, rec.n, MF, iters, rep_iters, MI)))
    if mi is not None and rep_iters > mi:
        viol.append(('generations-within-limit', 'reported iterations %r > maxiter %r' % (rep_iters, mi)))
    return {'violations': viol, 'begun': ncb[0], 'calls': rec.n, 'aborted': None}


# ----------------------------------------------------------------------------- scenario families
def fam_limits(tier):
    pos = [0, 1, 2, 3, 5]
    tail = [['solve', None], ['limits', 2, None, True], ['solve', None], ['step']]
    probs = [('rosen', 2)] if tier == 'quick' else [('rosen', 2), ('sphere', 3), ('absum', 1)]
    for kind, g, e, new, p, mode, (cost, n) in itertools.product(SOLVERS, VALS, VALS, [False, True], pos, ['run', 'solve'], probs):
        body = [['run', 14], ['step'], ['step']] if mode == 'run' else [['solve', None]]
        yield dict(fam='limits', solver=kind, ndim=n, cost=cost, seed=11, key=[g, e, new, p, mode, cost, n],
                   ops=[['step']] * p + [['limits', g, e, new]] + body + tail)
        if kind == 'DE2' and p in (0, 2):
            yield dict(fam='limits', solver=kind, ndim=n, cost=cost, seed=11, key=[g, e, new, p, mode, cost, n, 'usermap'], usermap=True,
                       ops=[['step']] * p + [['limits', g, e, new]] + body + tail)


def fam_exit(tier):
    for kind, k, mode, lim in itertools.product(SOLVERS, range(0, 6), ['run', 'solve'], [None, 7]):
        pre = [['limits', lim, None, False]] if lim is not None else []
        if mode == 'run':
            ops = pre + [['step']] * k + [['exit'], ['step'], ['step'], ['run', 3]]
        else:
            ops = pre + [['solve', k + 1], ['step']]
        yield dict(fam='exit', solver=kind, ndim=2, cost='rosen', seed=12, key=[k, mode, lim], ops=ops)


def fam_term(tier):
    for kind, t, mode, p, cost in itertools.product(SOLVERS, sorted(TERMS), ['run', 'solve'], [0, 2], ['sphere', 'absum']):
        body = [['run', 30], ['step']] if mode == 'run' else [['limits', 40, None, False], ['solve', None], ['step']]
        yield dict(fam='termination', solver=kind, ndim=2, cost=cost, seed=13, key=[t, mode, p, cost],
                   ops=[['step']] * p + [['term', t]] + body + [['term', 'never'], ['limits', 2, None, True], ['solve', None]])


def fam_random(tier, seed):
    rng = random.Random(seed)
    for k in range(600 if tier == 'quick' else 12000):
        ops = []
        for _ in range(rng.randint(3, 10)):
            o = rng.choice(['step'] * 5 + ['run', 'solve', 'solve', 'limits', 'limits', 'limits', 'term', 'exit', 'penalty'])
            ops.append({'step': ['step'], 'run': ['run', rng.randint(2, 9)], 'solve': ['solve', rng.choice([None, None, 1, 2, 4])],
                        'limits': ['limits', rng.choice(VALS + [3, 12]), rng.choice(VALS + [30, 90]), rng.random() < 0.5],
                        'term': ['term', rng.choice(sorted(TERMS))], 'exit': ['exit'],
                        'penalty': ['penalty', rng.choice(['none', 'quad_ineq', 'lin_eq'])]}[o])
        yield dict(fam='random', solver=SOLVERS[k % 4], ndim=rng.choice([1, 2, 3]), cost=rng.choice(['sphere', 'rosen', 'absum', 'shifted']),
                   seed=rng.randrange(10 ** 6), term=rng.choice(sorted(TERMS)), key=[k], ops=ops,
                   usermap=random.Random(seed * 13 + k).random() < 0.4)


def fam_wrappers(tier, seed):
    costs = ['sphere'] if tier == 'quick' else ['sphere', 'rosen', 'absum']
    for w, mi, mf, cost in itertools.product(['fmin', 'fmin_powell', 'diffev', 'diffev2'], VALS, VALS + [25], costs):
        yield dict(fam='wrappers', solver=w, which=w, ndim=2, cost=cost, seed=seed + 14, maxiter=mi, maxfun=mf, key=[mi, mf, cost])


def run_collapse(sc):
    """Solve with a collapse condition next to an ordinary one and a generation limit: it returns (a collapse that is
    applied must not be reported again and again), within the limit"""
    import io
    import mystic.solvers as ms
    from mystic.termination import Or, VTR, CollapseAt, CollapseAs, ChangeOverGeneration
    seed_all(sc['seed'])
    n = 4
    mask = None if sc['mask'] == 'None' else set() if sc['mask'] == 'empty' else ({2} if sc['kind'] == 'at' else {(2, 3)})
    cond = CollapseAt(sc['target'], generations=10, mask=mask) if sc['kind'] == 'at' else CollapseAs(generations=10, mask=mask)
    # a cost whose minimiser has x0 = x1 = 0 (both collapse at 0 and onto each other) and distinct other coordinates
    cost = lambda x: float(x[0]) ** 2 + float(x[1]) ** 2 + (float(x[2]) - 1.0) ** 2 + (float(x[3]) + 2.0) ** 2      # noqa: E731
    s = getattr(ms, sc['solver'])(n) if sc['solver'] != 'DifferentialEvolutionSolver' else ms.DifferentialEvolutionSolver(n, 12)
    if sc['solver'] == 'DifferentialEvolutionSolver':
        s.SetRandomInitialPoints([-3.0] * n, [3.0] * n)
    else:
        s.SetInitialPoints([0.5, -0.25, 2.0, 1.0])
    s.SetEvaluationLimits(generations=sc['limit'])
    s.SetTermination(Or(cond, ChangeOverGeneration(1e-12, 40)))
    viol, aborted = [], None
    try:
        with guard(20), contextlib.redirect_stdout(io.StringIO()):
            s.Solve(cost, disp=False)
    except _Timeout:
        viol.append(('solve-returns', 'Solve with %s(mask=%s) did not return within 20 s of CPU time (generations=%r of limit %r)'
                     % ('CollapseAt' if sc['kind'] == 'at' else 'CollapseAs', sc['mask'], s.generations, sc['limit'])))
    except Exception as e:      # noqa -- an exception is not what C05 is about
        aborted = 'collapse: %s: %s' % (type(e).__name__, e)
    if not viol and aborted is None and s.generations > sc['limit']:
        viol.append(('generations-within-limit', 'generations=%r limit=%r' % (s.generations, sc['limit'])))
    return {'violations': viol, 'begun': s.generations, 'calls': s.evaluations, 'aborted': aborted}


def fam_collapse(tier, seed):
    solvers = ['NelderMeadSimplexSolver', 'PowellDirectionalSolver'] + (['DifferentialEvolutionSolver'] if tier != 'quick' else [])
    for solver, kind, mask, target in itertools.product(solvers, ['at', 'as'], ['None', 'empty', 'preset'], [0.0]):
        yield dict(fam='collapse', solver=solver, kind=kind, mask=mask, target=target, limit=150, seed=seed + 21, key=[kind, mask])


def _work(sc):
    if sc['fam'] == 'collapse':
        return {'sc': sc, 'r': run_collapse(sc)}
    return {'sc': sc, 'r': (run_wrapper if sc['fam'] == 'wrappers' else run_seq)(sc)}


def run(tier='quick', seed=0):
    scs = list(fam_limits(tier)) + list(fam_exit(tier)) + list(fam_term(tier)) + \
        list(fam_random(tier, seed * 1000003 + 5)) + list(fam_wrappers(tier, seed)) + list(fam_collapse(tier, seed))
    res = Result(rule='families: limits = ALL (g, e) in {0,1,2,7,None}^2 x new x position p in {0,1,2,3,5} at which the limits '
                      'are (re)set x {Step-loop, Solve} x 4 solvers, each followed by a second Solve on the finished solver, '
                      'new=True limits and a third Solve; exit = exit requested after k = 0..5 steps (flag set as '
                      '_signal.Handler does; between Steps, or from the callback inside Solve); termination = 9 conditions '
                      '(VTR, ChangeOverGeneration windows 1-3, Or/And, never-true) set at step 0/2; random = seeded sequences of '
                      'step/run/solve/limits/term/exit/penalty; wrappers = fmin, fmin_powell, diffev, diffev2 with full_output=1 '
                      'over all (maxiter, maxfun) pairs; collapse = Solve under Or(CollapseAt / CollapseAs with mask None / empty / preset, ChangeOverGeneration) with a generation limit must return.  Stop conditions are evaluated by the shadow each time an iteration '
                      'begins; distinct = (family, solver, parameters) in which >= 1 iteration was begun',
                 bound='%d scenarios; limits in {0,1,2,7,None}, <= 14 steps per Step-loop, dims 1-3, Solve guarded at 20 s' % len(scs))
    for out in pmap(_work, scs):
        sc, r = out['sc'], out['r']
        if r['aborted']:
            res.extra.setdefault('aborted', []).append(r['aborted'][:160])
        res.case(repr((sc['fam'], sc['solver'], sc['key'])), nontrivial=r['begun'] >= 1,
                 sample={'family': sc['fam'], 'solver': sc['solver'], 'key': sc['key'], 'steps': r['begun'], 'calls': r['calls']})
        for clause, detail in r['violations']:
            res.violation('%s/%s/%s/%s' % (P, sc['fam'], sc['solver'], clause), detail, jsonable(sc))
    res.extra['exhaustive'] = False       # the limits/exit/termination/wrappers families are complete; random is sampled
    res.extra['exhaustive_families'] = ['limits', 'exit', 'termination', 'wrappers']
    res.extra['harness_errors_count'] = 0
    res.extra['aborted_count'] = len(res.extra.get('aborted', []))
    res.extra['aborted'] = res.extra.get('aborted', [])[:10]
    return res.out()


def replay(inp):
    if inp['fam'] == 'collapse':
        return not run_collapse(inp)['violations']
    return not (run_wrapper if inp['fam'] == 'wrappers' else run_seq)(inp)['violations']
