import sys, time, json, importlib; sys.path.insert(0,'/verif')
for name in sys.argv[1:]:
    m=importlib.import_module('rtc.'+name)
    t=time.time(); r=m.run('quick',int(__import__('os').environ.get('VERIF_SEED','0')))
    keys={}
    for v in r['violations']: keys.setdefault(v['key'],v)
    print('%s evals=%d distinct=%d keys=%d %.1fs'%(name, r['evaluations'], r['distinct_nontrivial'], len(keys), time.time()-t))
    for k,v in sorted(keys.items()): print('   ',k,'|',v['detail'][:160].replace('\n',' '))
