"""Bounded layer (rtc): shared helpers.  Everything here runs the REAL mystic code in CPython through its public
API.  Results are always labelled bounded, never counted as proved.

Interface of every rtc/cXX.py module:
    run(tier='quick'|'thorough', seed=int) -> dict(evaluations=int, distinct_nontrivial=int, rule=str,
                                                  samples=[...], violations=[{key, detail, input}], bound=str, ...)
    replay(input) -> True if the property holds on that input, False if the violation reproduces
A violation key is a stable string  'Cxx/bounded/<scenario family>/<clause>'  (used by known_findings.json).
"""
import os
import sys
import math
import random
import warnings
import itertools
import multiprocessing as mp

REPO = os.environ.get('PYVC_REPO', '/repo')
if REPO not in sys.path:
    sys.path.insert(0, REPO)
warnings.simplefilter('ignore')

import numpy as np     # noqa: E402
np.seterr(all='ignore')


def seed_all(seed):
    random.seed(seed)
    np.random.seed(seed % (2 ** 32))
    try:
        from mystic.tools import random_seed
        random_seed(seed)
    except Exception:
        pass


# Hang budget shared by the worker processes of one bounded run (created before the pool forks): a changed tree on which
# every guarded call hangs would otherwise cost (guard x cases / workers) CPU seconds.  After HANG_LIMIT guard expiries --
# each of them already reported as a violation -- the remaining guarded cases are skipped (counted, never reported).
HANGS = mp.Value('i', 0)
HANG_LIMIT = 6


def hang_seen():
    with HANGS.get_lock():
        HANGS.value += 1


def hang_budget_spent():
    return HANGS.value >= HANG_LIMIT


def pmap(fn, items, procs=16):
    items = list(items)
    if len(items) <= 1 or procs <= 1:
        return [fn(x) for x in items]
    with mp.Pool(min(procs, len(items))) as pool:
        return pool.map(fn, items, chunksize=max(1, len(items) // (procs * 4)))


class Result:
    """accumulates what a bounded run covered"""
    def __init__(self, rule, bound):
        self.evaluations = 0
        self.distinct = set()
        self.samples = []
        self.violations = []
        self.rule = rule
        self.bound = bound
        self.extra = {}

    def case(self, key, nontrivial=True, sample=None):
        self.evaluations += 1
        if nontrivial:
            self.distinct.add(key)
        if sample is not None and len(self.samples) < 4:
            self.samples.append(sample)

    def violation(self, key, detail, inp):
        if len([v for v in self.violations if v['key'] == key]) < 3:
            self.violations.append({'key': key, 'detail': str(detail)[:600], 'input': inp})

    def merge(self, other):
        self.evaluations += other['evaluations']
        self.distinct |= set(other['distinct'])
        for s in other['samples']:
            if len(self.samples) < 4:
                self.samples.append(s)
        for v in other['violations']:
            self.violation(v['key'], v['detail'], v['input'])

    def part(self):
        """picklable partial result (for pmap workers)"""
        return {'evaluations': self.evaluations, 'distinct': list(self.distinct), 'samples': self.samples,
                'violations': self.violations}

    def out(self):
        d = {'evaluations': self.evaluations, 'distinct_nontrivial': len(self.distinct), 'rule': self.rule,
             'samples': self.samples, 'violations': self.violations, 'bound': self.bound}
        d.update(self.extra)
        return d


# ----------------------------------------------------------------------------- cost functions
def sphere(x):
    return float(sum(float(v) ** 2 for v in x))


def shifted(x):
    return float(sum((float(v) - 1.5 * (i + 1)) ** 2 for i, v in enumerate(x)))


def rosen(x):
    x = [float(v) for v in x]
    if len(x) == 1:
        return (1 - x[0]) ** 2
    return float(sum(100.0 * (x[i + 1] - x[i] ** 2) ** 2 + (1 - x[i]) ** 2 for i in range(len(x) - 1)))


def absum(x):
    return float(sum(abs(float(v) - 0.3) for v in x))


def plateau(x):
    return float(sum(math.floor(abs(float(v))) for v in x))


def tilted(x):
    return float(sum((i + 1) * float(v) for i, v in enumerate(x)) + 0.1 * sum(float(v) ** 2 for v in x))


COSTS = {'sphere': sphere, 'shifted': shifted, 'rosen': rosen, 'absum': absum, 'plateau': plateau, 'tilted': tilted}


class Recorder:
    """instrumented user cost: counts and logs every call (a shadow, independent of the solver's own counters)"""
    def __init__(self, f, vector=False):
        self.f = f
        self.calls = []      # (tuple(x), value)
        self.vector = vector

    def __call__(self, x, *args):
        xs = tuple(float(v) for v in x)
        v = self.f(xs)
        if self.vector:
            v = np.array([v / 2.0, v / 2.0])
        self.calls.append((xs, v))
        return v

    @property
    def n(self):
        return len(self.calls)

    def points(self):
        return [c[0] for c in self.calls]


# ----------------------------------------------------------------------------- solvers
def make_solver(kind, ndim, npop=None):
    from mystic.solvers import DifferentialEvolutionSolver, DifferentialEvolutionSolver2, \
        NelderMeadSimplexSolver, PowellDirectionalSolver
    if kind == 'DE1':
        return DifferentialEvolutionSolver(ndim, npop or max(8, 2 * ndim + 2))
    if kind == 'DE2':
        return DifferentialEvolutionSolver2(ndim, npop or max(8, 2 * ndim + 2))
    if kind == 'NM':
        return NelderMeadSimplexSolver(ndim)
    if kind == 'Powell':
        return PowellDirectionalSolver(ndim)
    raise ValueError(kind)


SOLVERS = ['DE1', 'DE2', 'NM', 'Powell']


def inbox(x, lo, hi):
    return all(l <= float(v) <= u for v, l, u in zip(x, lo, hi))


def feq(a, b, rel=1e-9, abs_=1e-12):
    try:
        a, b = float(a), float(b)
    except (TypeError, ValueError):
        return False
    if a == b:
        return True
    if math.isinf(a) or math.isinf(b) or math.isnan(a) or math.isnan(b):
        return False
    return math.isclose(a, b, rel_tol=rel, abs_tol=abs_)


def veq(a, b, rel=1e-9, abs_=1e-12):
    a, b = list(a), list(b)
    return len(a) == len(b) and all(feq(x, y, rel, abs_) for x, y in zip(a, b))


def jsonable(x):
    if isinstance(x, dict):
        return {str(k): jsonable(v) for k, v in x.items()}
    if isinstance(x, (list, tuple)):
        return [jsonable(v) for v in x]
    if isinstance(x, (np.floating, float)):
        x = float(x)
        return repr(x) if (math.isinf(x) or math.isnan(x)) else x
    if isinstance(x, (np.integer,)):
        return int(x)
    if isinstance(x, np.ndarray):
        return jsonable(x.tolist())
    if isinstance(x, (int, str, bool)) or x is None:
        return x
    return repr(x)
