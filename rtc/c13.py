"""C13 bounded layer: constraints functions compiled from isolated-form relations (generate_solvers /
generate_constraint) and the bounds constraint (constraints.boundsconstrain) are run on enumerated programs x input
vectors; the oracle evaluates the relation TEXT itself with python on the returned vector."""
import io
import math
import random
import operator
import itertools
import contextlib
from .common import Result, pmap, seed_all, jsonable

OPS = {'<=': operator.le, '>=': operator.ge, '!=': operator.ne, '==': operator.eq, '=': operator.eq,
       '<': operator.lt, '>': operator.gt}
CMPS = ['=', '==', '<=', '>=', '<', '>', '!=']
POSITIONS = ['first', 'middle', 'last', 'twodigit']
KINDS = ['const', 'linear', 'product', 'abs', 'gcall']
XL = ['x', 'xx', 'xxx', 'y', 'yy', 'xy', 'yx', 'z', 'zz', 'zx', 'w', 'wx', 'xw', 'ww', 'v', 'vx']
AL = ['a', 'ab', 'b', 'ba', 'c', 'ca', 'ac', 'd', 'da', 'ad', 'bd', 'db', 'cd', 'dc', 'q', 'qa']
SCHEMES = ['x', 'y', 'xlist', 'alist']           # base letter x (default), base letter y, two explicit name lists
GF = {'g1': lambda a, b=0.5: 0.5 * a - b + 1.0, 'g2': lambda a, b=2.0: abs(a) * b - 3.0}
INF = float('inf')
# interleaved generation: right-hand sides use the named constants K0, K1 and g(...) bound through `locals`
NPOOL = ['named', 'named', 'gcall', 'const', 'linear']
GF3 = dict(GF, g3=lambda a, b=-1.0: a * a + b)
KVALS = [2.5, -3.0, 0.5, 7.0, -0.25, 1e3, 0.0, 5.0, -1e6, 1e12]
TOLSETS = [None, {'tol': 1e-6, 'rel': 1e-15}, {'tol': 0.5, 'rel': 1e-3}, {'tol': 1e-3, 'rel': 0.0},
           {'tol': 1e-15, 'rel': 0.0}, {'tol': 1e-15, 'rel': 1e-9}]
MODES = ['const', 'g', 'tol', 'all']                # which names the later generation calls rebind
SHAPES = ['same2', 'diff2', 'same3', 'diff3', 'joined']


def names_of(scheme, nv):
    return [scheme + str(i) for i in range(nv)] if scheme in 'xy' else (XL if scheme == 'xlist' else AL)[:nv]


def _c(rng):
    return rng.choice(['2', '-3', '0.5', '-1.25', '7', '0.1', '-0.3', '1e3'])


def rhs_text(kind, free, rng):
    v = [rng.choice(free) for _ in range(3)] if free else []
    if kind == 'named':
        return rng.choice(['K0', 'K0*%s + K1' % v[0], '%s - K1' % v[0], 'g(%s, K0) + K1' % v[1], 'K0*%s*%s - K1' % (v[0], v[2]),
                           'K1 - g(%s)' % v[0]]) if free else rng.choice(['K0', 'K1', 'K0 - K1', 'g(K0, K1)'])
    if kind == 'const' or not free:
        return rng.choice(['3', '-2.5', '0', '0.1', '-7', '1e300', '-1e300', '1e-300', '2.5e5'])
    if kind == 'linear':
        return rng.choice(['%s*%s + %s' % (_c(rng), v[0], _c(rng)), '%s*%s - %s*%s' % (_c(rng), v[0], _c(rng), v[1]),
                           '%s' % v[0], '-%s + %s*%s + %s' % (v[0], _c(rng), v[1], _c(rng))])
    if kind == 'product':
        return rng.choice(['%s*%s' % (v[0], v[1]), '%s*%s*%s + 1' % (_c(rng), v[0], v[1]), '%s*%s - %s' % (v[0], v[0], v[2])])
    if kind == 'abs':
        return rng.choice(['abs(%s) + 1' % v[0], 'abs(%s - %s)' % (v[0], v[1]), '-abs(%s*%s)' % (_c(rng), v[0])])
    return rng.choice(['g(%s, %s)' % (v[0], v[1]), 'g(%s) + 2' % v[0], '2*g(%s, 3) - %s' % (v[0], v[1])])


def gen_program(cmp, pos, scheme, kind, nrel, seed, pool=KINDS):
    rng = random.Random('%s|%s|%s|%s|%d|%d' % (cmp, pos, scheme, kind, nrel, seed))
    nv = rng.choice([11, 13, 16]) if pos == 'twodigit' else rng.choice([max(3, nrel + 1), 5, 12])
    if kind == 'const' and nrel == 1 and pos == 'first' and rng.random() < .5:
        nv = 1
    names = names_of(scheme, nv)
    first = {'first': 0, 'middle': nv // 2, 'last': nv - 1, 'twodigit': rng.randrange(10, nv) if nv > 10 else 0}[pos]
    lhs = [first] + rng.sample([j for j in range(nv) if j != first], min(nrel - 1, nv - 1))
    free = [names[j] for j in range(nv) if j not in lhs]
    if nv > 10 and free:                               # make one- and two-digit indices meet in one text
        free = [f for f in free if names.index(f) in (1, 10, 11, 12)] or free
    if scheme == 'alist' and kind == 'abs':            # names inside 'abs' are replaced textually (documented FIXME)
        kind = 'linear'
    rels = [{'i': i, 'cmp': cmp if k == 0 else rng.choice(CMPS), 'rhs': rhs_text(kind if k == 0 else rng.choice(
        [q for q in pool if q != 'abs' or scheme != 'alist']), free, rng)} for k, i in enumerate(lhs)]
    rng.shuffle(rels)
    return {'family': 'single' if nrel == 1 else 'several', 'scheme': scheme, 'nv': nv, 'rels': rels,
            'nvars_arg': rng.random() < .6 or scheme in ('xlist', 'alist'), 'g': rng.choice(sorted(GF)), 'seed': seed,
            'tag': '%s|%s|%s|%s|%d' % (cmp, pos, scheme, kind, nrel)}


def text_of(spec):
    names = names_of(spec['scheme'], spec['nv'])
    return '\n'.join('%s %s %s' % (names[r['i']], r['cmp'], r['rhs']) for r in spec['rels'])


def _loc(spec, r=None):
    """(g, named constants, tol, rel) in force for relation r of spec (per-relation entries: jointly compiled groups)"""
    d = spec if r is None or 'g' not in r else r
    t = d.get('tols') or {}
    return GF3[d['g']], d.get('consts') or {}, t.get('tol', 1e-15), t.get('rel', 1e-15)


def solvers(spec):
    import mystic.symbolic as ms
    names = names_of(spec['scheme'], spec['nv'])
    var = spec['scheme'] if spec['scheme'] in 'xy' else names
    kw = {'nvars': spec['nv']} if spec['nvars_arg'] else {}
    g, consts, _, _ = _loc(spec)
    return ms.generate_solvers(text_of(spec), variables=var, locals=dict(consts, g=g, **(spec.get('tols') or {})), **kw)


def build(spec):
    import mystic.symbolic as ms
    return ms.generate_constraint(solvers(spec))


def rhs_at(spec, r, v):
    """independent evaluation of the right-hand side text on vector v"""
    env = dict(zip(names_of(spec['scheme'], spec['nv']), v))
    g, consts, _, _ = _loc(spec, r)
    env.update(consts, abs=abs, g=g)
    return eval(r['rhs'], {'__builtins__': {}}, env)


def holds(spec, v):
    """-> list of (relation, holds?, rhs value) by evaluating the text at v; None when an rhs is not finite"""
    out = []
    for r in spec['rels']:
        val = rhs_at(spec, r, v)
        if not math.isfinite(val) or abs(val) > 1e307:
            return None
        out.append((r, bool(OPS[r['cmp']](v[r['i']], val)), val))
    return out


def inputs(spec, n, rng):
    nv = spec['nv']
    kinds = ['random', 'boundary', 'satisfying', 'violating', 'huge', 'tiny', 'negative', 'ints', 'adjacent', 'zeros']
    for kind in (kinds * (n // len(kinds) + 1))[:n]:
        if kind == 'huge':
            x = [rng.choice([1e300, -1e300, 3e150, -2e200, 1e-300, 1.0]) for _ in range(nv)]
        elif kind == 'tiny':
            x = [rng.choice([1e-300, -1e-300, 5e-324, 0.0, -0.0, 1e-16]) for _ in range(nv)]
        elif kind == 'negative':
            x = [-rng.uniform(0, 100) for _ in range(nv)]
        elif kind == 'ints':
            x = [rng.randint(-5, 5) for _ in range(nv)]
        elif kind == 'zeros':
            x = [0.0] * nv
        else:
            x = [rng.uniform(-10, 10) for _ in range(nv)]
        for r in spec['rels']:                        # place the left-hand variables relative to their boundary
            if kind in ('boundary', 'satisfying', 'violating', 'adjacent'):
                try:
                    b = float(rhs_at(spec, r, x))
                except OverflowError:
                    continue
                if not math.isfinite(b):
                    continue
                up = r['cmp'] in ('>=', '>')
                step = abs(b) * rng.choice([1e-3, 1.0]) + rng.choice([1e-3, 1.0])
                if kind == 'boundary':
                    x[r['i']] = b
                elif kind == 'adjacent':
                    x[r['i']] = math.nextafter(b, INF if (up or r['cmp'] == '!=') else -INF)
                elif (kind == 'satisfying') == (r['cmp'] in ('=', '==')):
                    x[r['i']] = b if kind == 'satisfying' else b + step
                elif r['cmp'] == '!=':
                    x[r['i']] = b + step if kind == 'satisfying' else b
                else:
                    x[r['i']] = b + step if (kind == 'satisfying') == up else b - step
        yield kind, x


def same(a, b):
    return len(a) == len(b) and all(float(p) == float(q) for p, q in zip(a, b))


def check_vector(spec, c, kind, x, res, stats, inp=None):
    """all clauses for one (program, input vector)"""
    fam = spec['family']
    key = 'C13/bounded/%s/' % fam
    inp = dict(spec, x=jsonable(x)) if inp is None else inp
    try:
        before = holds(spec, x)
    except OverflowError:
        before = None
    for r, _, val in before or []:                    # a user-given tolerance below the float spacing at the boundary
        t = _loc(spec, r)[2] + abs(val) * _loc(spec, r)[3]
        if r['cmp'] in ('<', '>', '!=') and (val + t == val or val - t == val):
            stats['skipped_tol_unresolvable'] = stats.get('skipped_tol_unresolvable', 0) + 1
            return
    x0 = list(x)
    try:
        y = list(c(list(x)))
    except Exception as e:
        if before is None:
            stats['skipped_nonfinite'] = stats.get('skipped_nonfinite', 0) + 1
            return
        res.violation(key + 'call-succeeds', '%s on %r at %r: %s: %s' % (text_of(spec), kind, x, type(e).__name__, e), inp)
        return
    try:
        after = holds(spec, y)
    except OverflowError:
        after = None
    if before is None or after is None:               # relation has no finite right-hand side here: nothing to demand
        stats['skipped_nonfinite'] = stats.get('skipped_nonfinite', 0) + 1
        return
    lhs = set(r['i'] for r in spec['rels'])
    res.case('%s|%s' % (spec['tag'], kind), any(not h for _, h, _ in before), None if len(res.samples) >= 4 else jsonable(
        {'family': fam, 'text': text_of(spec), 'locals': [{k: r.get(k, spec.get(k)) for k in ('g', 'consts', 'tols')} for r in spec['rels']],
         'kind': kind, 'point': x0, 'result': y, 'generated_with': inp.get('chain', {}).get('tag', 'single call')}))
    for r, h, val in after:
        if not h:
            res.violation(key + 'relation-holds', '%r: y[%d]=%r %s %r fails; x=%r y=%r' % (
                text_of(spec), r['i'], y[r['i']], r['cmp'], val, x0, y), inp)
    if not all(float(y[j]) == float(x0[j]) for j in range(len(x0)) if j not in lhs) or len(y) != len(x0):
        res.violation(key + 'frame', '%r: changed outside the left-hand variables; x=%r y=%r' % (text_of(spec), x0, y), inp)
    if all(h for _, h, _ in before) and not same(y, x0):
        near = all(r['cmp'] in ('<', '>') and abs(x0[r['i']] - val) <= 1.0000001 * (_loc(spec, r)[2] + abs(val) * _loc(spec, r)[3])
                   for r, _, val in before if float(y[r['i']]) != float(x0[r['i']]))
        res.violation(key + 'identity-when-satisfied' + ('#strict-within-tol' if near else ''),
                      '%r: input satisfies every relation but was changed; x=%r y=%r' % (text_of(spec), x0, y), inp)


# ----------------------------------------------------------------------------- boundsconstrain
def gen_box(seed):
    rng = random.Random(seed)
    n = rng.choice([1, 2, 3, 3, 12])
    lo, hi = [], []
    for _ in range(n):
        a, b = sorted(rng.choice([0.0, -1.0, 2.5, -7.25, 1e300, -1e300, 1e-300, 100.0, -0.0, 3, -2]) for _ in range(2))
        side = rng.random()
        if side < .2:
            b = a                                      # degenerate min == max
        a = rng.choice([a, a, a, None, '-inf'])
        b = rng.choice([b, b, b, None, 'inf'])
        lo.append(a)
        hi.append(b)
    spec = {'family': 'boundsconstrain', 'min': lo, 'max': hi, 'seed': seed,
            'kwds': rng.choice([{}, {'symbolic': True}, {'symbolic': False}, {'symbolic': False, 'clip': True},
                                {'symbolic': True, 'clip': True}])}
    # the re-drawing mode (own generator, the other draws keep their values): into the box, and the identity inside it
    if random.Random(seed * 5 + 3).random() < 0.2:
        spec['kwds'] = {'symbolic': False, 'clip': False}
    if seed % 6 == 0:
        # every sixth box: a coordinate left free on BOTH sides (None, None) next to bounded ones, no degenerate side, so that
        # neither of the known sub-cases (#min==max, #all-infinite) applies
        lo2, hi2 = [None], [None]
        for a, b in list(zip(lo, hi))[1:] + [(-1.0, 2.5)]:
            fa = -INF if a in (None, '-inf') else float(a)
            fb = INF if b in (None, 'inf') else float(b)
            if fa == fb:
                b = fa + 1.0
            lo2.append(a)
            hi2.append(b)
        spec['min'], spec['max'] = lo2, hi2
    return spec


def _f(v, default):
    return default if v is None else float(v)


def check_box(spec, res, stats, nin, xs=None):
    import mystic.constraints as mc
    rng = random.Random(spec['seed'] + 1)
    lo, hi = [_f(v, -INF) for v in spec['min']], [_f(v, INF) for v in spec['max']]
    degenerate = any(a == b for a, b in zip(lo, hi))
    fam = 'boundsconstrain-' + ('symbolic' if spec['kwds'].get('symbolic', True) else 'impose')
    key = 'C13/bounded/%s/' % fam
    raw = lambda side: [float(v) if isinstance(v, str) else v for v in side]
    try:
        with contextlib.redirect_stdout(io.StringIO()):
            c = mc.boundsconstrain(raw(spec['min']), raw(spec['max']), **spec['kwds'])
    except Exception as e:
        res.case(fam + '|build-fails', False)
        unb = all(a == -INF and b == INF for a, b in zip(lo, hi))
        res.violation(key + 'builds' + ('#min==max' if degenerate else '#all-infinite' if unb else ''), 'boundsconstrain(%r, %r, **%r): %s: %s' % (
            spec['min'], spec['max'], spec['kwds'], type(e).__name__, e), jsonable(spec))
        return
    n = len(lo)
    for k in range(nin):
        kind = ['inside', 'below', 'above', 'on-bounds', 'mixed', 'huge'][k % 6]
        x = []
        for a, b in zip(lo, hi):
            fa, fb = (a if a > -INF else min(b, 0.0) - 50.0), (b if b < INF else max(a, 0.0) + 50.0)
            fa, fb = (fa, fb) if fa <= fb else (fb, fb)
            inside = fa + (fb - fa) * rng.random() if math.isfinite(fb - fa) else rng.choice([fa, fb])
            inside = min(max(inside, a), b)
            below = a - rng.choice([1e-3, 1.0, abs(a)]) - (0 if abs(a) < 1e280 else abs(a) * 1e-3) if a > -INF else inside
            above = b + rng.choice([1e-3, 1.0, abs(b)]) + (0 if abs(b) < 1e280 else abs(b) * 1e-3) if b < INF else inside
            x.append({'inside': inside, 'below': below, 'above': above, 'on-bounds': rng.choice([fa, fb]),
                      'mixed': rng.choice([inside, below, above]),
                      'huge': rng.choice([1e300, -1e300, 1.7e308, -1.7e308, inside])}[kind])
        x0 = list(x) if xs is None else list(xs)
        inp = dict(spec, x=jsonable(x0))
        try:
            y = [float(v) for v in c(list(x0))]
        except Exception as e:
            res.violation(key + 'call-succeeds', 'box %r %r at %r: %s: %s' % (spec['min'], spec['max'], x0, type(e).__name__, e), inp)
            continue
        was_in = all(a <= v <= b for v, a, b in zip(x0, lo, hi))
        res.case('%s|%s|%s|n=%d|%s' % (fam, spec['min'], spec['max'], n, kind), not was_in, None if len(res.samples) >= 4 else jsonable(
            {'family': fam, 'min': spec['min'], 'max': spec['max'], 'kwds': spec['kwds'], 'kind': kind, 'point': x0, 'result': y}))
        tag = '#min==max' if degenerate else ''
        if len(y) != n or not all(a <= v <= b for v, a, b in zip(y, lo, hi)):
            res.violation(key + 'in-box' + tag, 'box %r %r: x=%r -> y=%r leaves the box' % (spec['min'], spec['max'], x0, y), inp)
        if was_in and y != x0:
            res.violation(key + 'identity-inside' + tag, 'box %r %r: x=%r inside but y=%r' % (spec['min'], spec['max'], x0, y), inp)
        if spec['kwds'].get('clip', True) is False:
            # re-drawing mode: coordinates already inside their interval are kept, the others land inside it
            if len(y) == n and any(a <= v <= b and w != v for v, w, a, b in zip(x0, y, lo, hi)):
                res.violation(key + 'identity-inside' + tag + '#coordinate', 'box %r %r: x=%r -> y=%r changes a coordinate that was '
                              'inside its interval' % (spec['min'], spec['max'], x0, y), inp)
            continue
        if len(y) == n and y != [min(max(v, a), b) for v, a, b in zip(x0, lo, hi)]:
            res.violation(key + 'clip-value' + tag, 'box %r %r: x=%r -> y=%r is not the coordinate-wise clip' % (
                spec['min'], spec['max'], x0, y), inp)


# ----------------------------------------------------------------------------- interleaved generation
def gen_chain(cmp, scheme, mode, shape, seed):
    """F1, F2 (, F3): programs over named constants K0, K1 / g / tol, rel; every later step rebinds the names `mode` says"""
    rng = random.Random('chain|%s|%s|%s|%s|%d' % (cmp, scheme, mode, shape, seed))
    prog = lambda c, s, n, k: gen_program(c, rng.choice(POSITIONS), s, 'named', n, seed * 31 + k, pool=NPOOL)
    base = prog(cmp, scheme, rng.choice((2, 3)) if shape == 'joined' else rng.choice((1, 1, 2, 3)), 0)
    locs = [{'g': rng.choice(sorted(GF3)), 'consts': {'K0': rng.choice(KVALS), 'K1': rng.choice(KVALS)}, 'tols': rng.choice(TOLSETS)}]
    for k in range(1, 2 if shape == 'joined' else int(shape[-1])):
        new = {'g': rng.choice([g for g in sorted(GF3) if all(g != l['g'] for l in locs)] or sorted(GF3)),
               'consts': {n: rng.choice([v for v in KVALS if all(v != l['consts'][n] for l in locs)]) for n in ('K0', 'K1')},
               'tols': rng.choice([t for t in TOLSETS if all(t != l['tols'] for l in locs)])}
        locs.append({n: new[n] if mode in ({'g': 'g', 'consts': 'const', 'tols': 'tol'}[n], 'all') else locs[0][n] for n in new})
    if shape == 'joined':                              # one program compiled in two groups, then composed
        steps = [dict(base, rels=base['rels'][:1], **locs[0]), dict(base, rels=base['rels'][1:], **locs[1])]
    else:
        steps = [dict(base if shape.startswith('same') or k == 0 else prog(rng.choice(CMPS), rng.choice(SCHEMES),
                                                                       rng.choice((1, 2, 3)), k), **l) for k, l in enumerate(locs)]
    tag = 'chain|%s|%s|%s|%s' % (cmp, scheme, mode, shape)
    steps = [dict(st, family='interleaved', tag='%s|F%d' % (tag, k + 1)) for k, st in enumerate(steps)]
    return {'family': 'interleaved', 'steps': steps, 'shape': shape, 'mode': mode, 'seed': seed, 'tag': tag,
            'conditions_last': rng.random() < .5}


def check_chain(ch, res, stats, nin, only=None):
    """generate every step in order (each with its own fresh locals dict), and only then evaluate each generated
    function against its OWN text and locals"""
    import mystic.symbolic as ms
    solv = []
    for st in ch['steps']:
        try:
            solv.append(solvers(st))
        except Exception as e:
            res.violation('C13/bounded/interleaved/builds', '%r: %s: %s' % (text_of(st), type(e).__name__, e), jsonable(ch))
            return
    targets = [(st, ms.generate_constraint(sv)) for st, sv in zip(ch['steps'], solv)]
    if ch['shape'] == 'joined':
        rels = [dict(r, g=st['g'], consts=st['consts'], tols=st['tols']) for st in ch['steps'] for r in st['rels']]
        targets.append((dict(ch['steps'][0], rels=rels, family='interleaved-joined', tag=ch['tag'] + '|F1+F2'),
                        ms.generate_constraint(solv[0] + solv[1])))
    if ch['conditions_last']:                          # a later generation call of the other generator, other bindings
        st = ch['steps'][0]
        try:
            with contextlib.redirect_stdout(io.StringIO()):
                ms.generate_conditions(text_of(st), variables=st['scheme'] if st['scheme'] in 'xy' else names_of(st['scheme'], st['nv']),
                                       nvars=st['nv'], locals={'g': min, 'K0': -77.0, 'K1': 1e9, 'tol': 0.25, 'rel': 0.25})
        except Exception as e:
            stats['aborted_conditions_call'] = stats.get('aborted_conditions_call', 0) + 1
    stats['chains'] = stats.get('chains', 0) + 1
    for k, (spec, c) in enumerate(targets):
        if only is not None:
            if k == only[0]:
                check_vector(spec, c, 'replay', only[1], res, stats, inp={})
            continue
        rng = random.Random(ch['seed'] * 7919 + 131 * k + len(ch['tag']))
        for kind, x in inputs(spec, nin, rng):
            check_vector(spec, c, kind, x, res, stats, inp={'family': 'interleaved', 'chain': jsonable(ch), 'target': k,
                                                            'x': jsonable(x), 'seed': ch['seed']})


# ----------------------------------------------------------------------------- driver
GROUPED = [('{a} >= 1.0', '{b} = {a} + 2.0'), ('{a} <= -3.0', '{b} = 2.0*{a}'), ('{a} = 4.0',), ('{b} = 1.5', '{a} >= {b}'), ('{a} = 3.0*2',)]


def gen_grouped(seed):
    """relations given as a TUPLE of strings (one group per string), with the default names, a base letter, or a name list"""
    rng = random.Random('c13-grouped|%d' % seed)
    out = []
    for naming in ('default', 'base-y', 'names'):
        ng = rng.choice([1, 2, 3])
        nv = 2 * ng + rng.choice([0, 1])
        names = {'default': ['x%d' % i for i in range(nv)], 'base-y': ['y%d' % i for i in range(nv)], 'names': AL[:nv]}[naming]
        texts = ['\n'.join(l.format(a=names[2 * g], b=names[2 * g + 1]) for l in rng.choice(GROUPED)) for g in range(ng)]
        out.append({'family': 'grouped', 'texts': texts, 'nv': nv, 'naming': naming, 'names': names, 'seed': seed, 'tag': 'grouped|%s|%d' % (naming, ng)})
    return out


def check_grouped(spec, res, stats, nin):
    import mystic.symbolic as ms
    key = 'C13/bounded/grouped/'
    names, nv = spec['names'], spec['nv']
    kw = {'default': {}, 'base-y': {'variables': 'y'}, 'names': {'variables': list(names)}}[spec['naming']]
    try:
        with contextlib.redirect_stdout(io.StringIO()):
            cons = ms.generate_constraint(ms.generate_solvers(tuple(spec['texts']), nvars=nv, **kw))
    except Exception as e:
        res.violation(key + 'builds', '%r %r: %s: %s' % (spec['texts'], kw, type(e).__name__, e), jsonable(spec))
        return
    lines = [l.strip().replace(' = ', ' == ') for t in spec['texts'] for l in t.splitlines() if l.strip()]
    rng = random.Random('c13-grouped-pts|%d|%s' % (spec['seed'], spec['naming']))
    for _ in range(nin):
        x = [float(rng.randint(-8, 8)) / 2 for _ in range(nv)]
        inp = dict(spec, x=list(x))
        try:
            y = [float(v) for v in cons(list(x))]
        except Exception as e:
            res.violation(key + 'call-succeeds', '%r at %r: %s: %s' % (spec['texts'], x, type(e).__name__, e), jsonable(inp))
            return
        env = dict(zip(names, y))
        res.case('%s%s' % (key, spec['tag']), y != x, None)
        bad = [l for l in lines if not eval(l, {}, dict(env))]
        if bad or len(y) != nv:
            res.violation(key + 'relations-hold', '%r %r: constraint(%r) = %r violates %r' % (spec['texts'], kw, x, y, bad), jsonable(inp))
            return


def _work(job):
    kind, specs, nin = job
    res, stats = Result('', ''), {}
    for spec in specs:
        seed_all(spec['seed'])
        if kind == 'box':
            check_box(spec, res, stats, nin)
            continue
        if kind == 'chain':
            check_chain(spec, res, stats, nin)
            continue
        if kind == 'grouped':
            check_grouped(spec, res, stats, nin)
            continue
        try:
            c = build(spec)
        except Exception as e:                          # text of the supported form must compile
            res.violation('C13/bounded/%s/builds' % spec['family'], '%r: %s: %s' % (text_of(spec), type(e).__name__, e),
                          jsonable(spec))
            continue
        stats['programs'] = stats.get('programs', 0) + 1
        rng = random.Random(spec['seed'] * 7919 + len(spec['tag']))
        for k, x in inputs(spec, nin, rng):
            check_vector(spec, c, k, x, res, stats)
    return res.part(), stats


def run(tier='quick', seed=0):
    reps, nin, nbox, nbin = (1, 10, 48, 12) if tier == 'quick' else (4, 40, 400, 30)
    res = Result(
        rule='complete product of comparator (= == <= >= < > !=) x left-hand position (index 0, middle, last, two-digit '
             'index >= 10) x naming scheme (base x, base y, explicit lists with names that are prefixes of each other) '
             'x right-hand-side kind (constant incl. 1e+-300, linear, product, abs, call of a function passed via '
             'locals) x number of relations (1-3, left-hand variables distinct and absent from all right-hand sides), '
             'seed-derived details (nvars 1..16, nvars= given or inferred); per program input vectors: random, exactly '
             'on the boundary, satisfying, violating, 1e+-300, denormal, negative, ints, the float adjacent to the '
             'boundary, zeros.  Oracle: python eval of the right-hand-side text on the returned vector, float ==/</>.  '
             'Inputs where a right-hand side is not finite are skipped.  Adjacent-float inputs satisfying a strict '
             'relation within the documented tolerance are keyed #strict-within-tol.  boundsconstrain: random boxes '
             '(1-12 variables, None/inf sides, min==max, 1e+-300) with symbolic default/True/False, clip=True; inputs '
             'inside, below, above, on the bounds, mixed, huge.  interleaved: complete product of first comparator x '
             'naming scheme x rebinding mode (const, g, tol, all) x shape; F1 is generated from a text whose right-hand '
             'sides use the named constants K0, K1, a function g and tol/rel, all given through locals; then F2 (and F3) '
             'is generated from the same text (same2/same3) or another text (diff2/diff3) with locals that rebind '
             'K0,K1 / g / tol,rel / all of them to different values, in half of the chains a generate_conditions call '
             'with yet other bindings follows, and only then is every Fk run on its input vectors and judged against '
             'its OWN text and locals (same clauses, key family interleaved).  joined: the relations of one program '
             'are compiled in two groups by two generate_solvers calls with different locals and composed by one '
             'generate_constraint(solvers1 + solvers2); every relation must hold with its own group\'s locals (family '
             'interleaved-joined).  With user-given tol/rel an input is skipped when tol+|rhs|*rel is below the float '
             'spacing at rhs (strictness not expressible); #strict-within-tol uses the relation\'s own tol/rel.  '
             'A distinct case = (program shape, input kind); non-trivial = the input violates a relation / lies '
             'outside the box.',
        bound='%s: %d x (7x4x4x5x3 = 1680 programs) x %d vectors; %d boxes x %d vectors; %d x (7x4x4x5 = 560 chains of 2-3 '
              'generation calls) x every generated function x %d vectors' % (tier, reps, nin, nbox, nbin, reps, nin))
    progs = [gen_program(c, p, s, k, n, seed * 100 + rep) for rep in range(reps)
             for c, p, s, k, n in itertools.product(CMPS, POSITIONS, SCHEMES, KINDS, (1, 2, 3))]
    boxes = [gen_box(seed * 1000003 + i) for i in range(nbox)]
    chains = [gen_chain(c, s, m, h, seed * 100 + rep) for rep in range(reps)
              for c, s, m, h in itertools.product(CMPS, SCHEMES, MODES, SHAPES)]
    jobs = [('rel', progs[i:i + 30], nin) for i in range(0, len(progs), 30)] + \
           [('chain', chains[i:i + 12], nin) for i in range(0, len(chains), 12)] + \
           [('box', boxes[i:i + 3], nbin) for i in range(0, len(boxes), 3)]
    grouped = [sp for r in range(2 if tier == 'quick' else 20) for sp in gen_grouped(seed * 100 + r)]
    jobs += [('grouped', grouped[i:i + 3], nin) for i in range(0, len(grouped), 3)]
    tot, fams = {}, {}
    for part, stats in pmap(_work, jobs):
        res.merge(part)
        for smp in part['samples']:
            fams.setdefault(smp['family'], smp)
        for k, v in stats.items():
            tot[k] = tot.get(k, 0) + v
    res.samples = list(fams.values())                  # one written-out case per scenario family
    # a `!=` line together with a non-strict bound on the same variables (shared with C14: rtc/c14.check_ne_coupled): the
    # relations of the text must all hold on the result
    from . import c14 as _c14
    for r in range(2 if tier == 'quick' else 12):
        for sp in _c14.gen_ne_coupled(seed * 100 + r):
            seed_all(sp['seed'])
            _c14.check_ne_coupled(sp, res, {}, 8 if tier == 'quick' else 24, prop='C13')
    res.extra.update(tot)
    res.extra['exhaustive'] = False
    return res.out()


def replay(inp):
    res, stats = Result('', ''), {}
    spec = dict(inp)
    x = [float(v) if isinstance(v, str) else v for v in spec.pop('x', [])]
    seed_all(spec['seed'])
    if spec['family'] == 'ne-coupled':
        from . import c14 as _c14
        _c14.check_ne_coupled(dict(inp), res, {}, 24, prop='C13')
    elif spec['family'] == 'boundsconstrain':
        check_box(spec, res, stats, 1, x)
    elif spec['family'] == 'grouped':
        check_grouped(dict(inp), res, stats, 24)
    elif spec['family'] == 'interleaved':
        check_chain(spec['chain'], res, stats, 1, only=(spec['target'], x))
    else:
        try:
            check_vector(spec, build(spec), 'replay', x, res, stats)
        except Exception:
            return False
    return not res.violations
