"""C04 bounded layer: best-so-far never worsens; counters, monitors and callbacks are faithful.

Seeded random sequences (length <= 12) of Step / Solve(tiny limit) / SetPenalty / SetConstraints / SetStrictRanges /
SetEvaluationLimits / SetGenerationMonitor / SetEvaluationMonitor / Finalize over DE1, DE2, NM, Powell.  After EVERY
call the clauses are evaluated against an independent shadow: the Recorder log of real cost calls, a count of
completed `_Step` invocations (instance-level counting wrapper; the first one is the initial evaluation, every
further one is an iteration), a snapshot of the reported best taken when each `_Step` returns, and the log of
callback arguments."""
import io
import os
import math
import random
import tempfile
import contextlib
from .common import *       # noqa
from .solver_runs import make_constraint, make_penalty

INF = float('inf')
P = 'C04/bounded'


def infwall(x):
    """finite bowl with a region where the user's cost itself is +inf (the F6 trigger)"""
    return INF if float(x[0]) > 0.75 else sphere(x)


LCOSTS = dict(COSTS, infwall=infwall)
MONS = ['Monitor', 'Verbose', 'Logging']
LIMITS = [(None, None, False), (3, None, True), (None, 40, True), (10 ** 6, 10 ** 7, False), (2, 30, True)]


def _monitor(kind, files):
    from mystic.monitors import Monitor, VerboseMonitor, LoggingMonitor
    if kind == 'Monitor':
        return Monitor()
    if kind == 'Verbose':
        return VerboseMonitor(10 ** 9, 10 ** 9)
    fd, name = tempfile.mkstemp(prefix='rtc_c04_', suffix='.log', dir='/tmp')
    os.close(fd)
    files.append(name)
    return LoggingMonitor(10 ** 9, name)


def _f(e):
    return float(np.asarray(e).ravel()[0])


def _same(a, b):
    return a == b or (math.isnan(a) and math.isnan(b))


def gen_scenarios(seed, n):
    rng = random.Random(seed)
    out = []
    for k in range(n):
        ops = []
        for _ in range(rng.randint(3, 12)):
            o = rng.choice(['Step'] * 7 + ['Solve', 'Solve', 'Penalty', 'Constraints', 'Ranges', 'Limits', 'GenMon',
                                           'EvalMon', 'Finalize'])
            if o == 'Solve':
                ops.append([o, rng.choice([1, 2, 3])])
            elif o == 'Penalty':
                ops.append([o, rng.choice(['none', 'quad_ineq', 'lin_eq'])])
            elif o == 'Constraints':
                ops.append([o, rng.choice(['none', 'pin0', 'clamp', 'round'])])
            elif o == 'Ranges':
                ops.append([o, rng.choice(['box', 'wide', 'tight'])])
            elif o == 'Limits':
                ops.append([o, rng.randrange(len(LIMITS))])
            elif o in ('GenMon', 'EvalMon'):
                ops.append([o, rng.choice(MONS)])
            else:
                ops.append([o])
        out.append(dict(solver=SOLVERS[k % 4], ndim=rng.choice([1, 2, 2, 3]), cost=rng.choice(sorted(LCOSTS)),
                        term=rng.choice(['never'] * 5 + ['gnt']), seed=rng.randrange(10 ** 6),
                        evalmon0=rng.choice([None] + MONS), genmon0=rng.choice([None, None] + MONS), ops=ops))
    return out


def run_scenario(sc):
    """returns dict(violations=[(clause, detail)], steps, calls, aborted, reconf)"""
    files = []
    try:
        with contextlib.redirect_stdout(io.StringIO()):
            return _run_scenario(sc, files)
    finally:
        for name in files:
            if os.path.exists(name):
                os.remove(name)


def _run_scenario(sc, files):
    seed_all(sc['seed'])
    from mystic.termination import VTR, Or, GradientNormTolerance
    ndim, kind = sc['ndim'], sc['solver']
    rng = random.Random(sc['seed'])
    rec = Recorder(LCOSTS[sc['cost']])
    s = make_solver(kind, ndim)
    if kind in ('DE1', 'DE2'):
        s.SetRandomInitialPoints([-3.0] * ndim, [3.0] * ndim)
    else:
        s.SetInitialPoints([rng.uniform(-1.0, 2.0) for _ in range(ndim)])
    s.SetTermination(VTR(-1e300) if sc['term'] == 'never' else Or(VTR(-1e300), GradientNormTolerance(1e-300)))
    s.SetObjective(rec)
    sh = dict(steps=0, best=[], mon_e=None, e_from=0, mon_g=None, e_midrun=False, fin_at=None, gm_live=False,
              reconf=False)
    real_step = s._Step

    def counted_step(*a, **k):          # shadow: completed iterations and the best reported at each of them
        real_step(*a, **k)
        sh['steps'] += 1
        sh['best'].append(([float(v) for v in s.bestSolution], _f(s.bestEnergy)))
    s._Step = counted_step
    cbs = []

    def cb(x):
        cbs.append([float(v) for v in x])

    def set_evalmon(mk):
        m = _monitor(mk, files)
        if sh['mon_e'] is None:
            sh['e_from'] = rec.n     # a first monitor only sees the calls made after it was installed
        if rec.n:
            sh['e_midrun'] = True
        s.SetEvaluationMonitor(m)
        sh['mon_e'] = m

    def set_genmon(mk):
        m = _monitor(mk, files)
        if kind == 'Powell' and sh['steps'] >= 2 and (sh['fin_at'] is None or sh['steps'] > sh['fin_at']):
            sh['gm_live'] = True      # Powell keeps its newest energy outside the step monitor while iterating
        s.SetGenerationMonitor(m)
        sh['mon_g'] = m
    if sc['evalmon0']:
        set_evalmon(sc['evalmon0'])
    if sc['genmon0']:
        set_genmon(sc['genmon0'])
    viol = []

    def tag(clause):
        """sub-case of a failing clause: the known trigger present in the history of this scenario"""
        if clause.startswith('evaluation'):
            if sc['term'] == 'gnt':
                return '#F13'
            if kind == 'DE2' and sh['mon_e'] is None and any(math.isinf(v) for (_, v) in rec.calls):
                return '#F6'
            if sh['e_midrun']:
                return '#F9'
        elif not clause.startswith('callback'):
            if sh['gm_live']:
                return '#SetGenerationMonitor-while-live'
            objective = clause in ('energy-history-non-increasing', 'stopped-step-monitor-ends-in-result')
            if sh['reconf'] and (objective or sh['fin_at'] is None):
                return '#reconfigured'        # penalty / constraints / ranges changed after the first evaluation
            if sh['fin_at'] is not None:
                return '#after-Finalize'      # Finalize ran earlier in this run (directly, at a stop, via a Set*)
        return ''

    def v(clause, detail, i):
        clause += tag(clause)
        if clause not in [c for c, _ in viol]:       # each clause once per scenario; the scenario goes on
            viol.append((clause, 'after op %d %r: %s' % (i, sc['ops'][i] if i >= 0 else 'setup', detail)))

    def check(i, stopped):
        if s.evaluations != rec.n:
            v('evaluation-counter-equals-calls', 'solver.evaluations=%r real calls=%d' % (s.evaluations, rec.n), i)
        m = sh['mon_e']
        if m is not None:
            xs = [tuple(float(t) for t in x) for x in m._x]
            ys = [_f(y) for y in m._y]
            exp = rec.calls[sh['e_from']:]
            if xs != [c[0] for c in exp] or len(ys) != len(exp) or not all(_same(a, c[1]) for a, c in zip(ys, exp)):
                j = next((j for j in range(min(len(xs), len(exp))) if xs[j] != exp[j][0] or not _same(ys[j], exp[j][1])),
                         min(len(xs), len(exp)))
                v('evaluation-monitor-equals-call-log', 'monitor has %d records, %d real calls since it was installed; '
                  'first difference at %d' % (len(xs), len(exp), j), i)
        iters = max(0, sh['steps'] - 1)
        if s.generations != iters:
            v('generations-equal-completed-iterations', 'solver.generations=%r completed iterations=%d'
              % (s.generations, iters), i)
        if not sh['steps']:
            return
        eh = [_f(e) for e in s.energy_history]
        be = _f(s.bestEnergy)
        bx = [float(t) for t in s.bestSolution]
        up = [j for j in range(len(eh) - 1) if eh[j + 1] > eh[j]]
        if up:
            v('energy-history-non-increasing', 'history[%d]=%r < history[%d]=%r' % (up[0], eh[up[0]], up[0] + 1,
                                                                                 eh[up[0] + 1]), i)
        if not eh or not _same(eh[-1], be):
            v('energy-history-ends-in-best-energy', 'history[-1]=%r bestEnergy=%r' % (eh[-1:] or None, be), i)
        if stopped:
            xh = [[float(t) for t in x] for x in s.solution_history]
            if len(eh) != iters + 1 or len(xh) != iters + 1:
                v('stopped-step-monitor-one-record-per-generation', '%d records for initial evaluation + %d iterations'
                  % (len(eh), iters), i)
            elif xh[-1] != bx or not _same(eh[-1], be):
                v('stopped-step-monitor-ends-in-result', 'last record (%r, %r) reported (%r, %r)' % (xh[-1], eh[-1], bx, be), i)
            else:
                bad = [j for j in range(iters + 1) if xh[j] != sh['best'][j][0] or not _same(eh[j], sh['best'][j][1])]
                if bad:
                    j = bad[0]
                    v('stopped-step-monitor-record-is-best-of-its-generation', 'record %d is (%r, %r) but the best '
                      'reported after that iteration was %r' % (j, xh[j], eh[j], sh['best'][j]), i)
            g = sh['mon_g']
            if g is not None and ([[float(t) for t in x] for x in g._x] != xh or [_f(e) for e in g._y] != eh):
                v('generation-monitor-object-holds-the-history', '%d records in the installed monitor, history has %d'
                  % (len(g._x), len(xh)), i)
        if len(cbs) != sh['steps']:
            v('callback-once-per-iteration', '%d callbacks for %d _Step invocations' % (len(cbs), sh['steps']), i)
        else:
            bad = [j for j in range(len(cbs)) if cbs[j] != sh['best'][j][0]]
            if bad:
                v('callback-gets-current-best', 'callback %d got %r, best was %r' % (bad[0], cbs[bad[0]],
                                                                                  sh['best'][bad[0]][0]), i)
    aborted = None
    reconf = 0
    check(-1, False)
    for i, op in enumerate(sc['ops']):
        stopped = False
        try:
            if op[0] == 'Step':
                stopped = bool(s.Step(callback=cb))
            elif op[0] == 'Solve':
                s.SetEvaluationLimits(generations=op[1], new=True)
                s.Solve(callback=cb)
                stopped = True
            elif op[0] == 'Finalize':
                s.Finalize()
                stopped = True
            elif op[0] == 'Penalty':
                s.SetPenalty(make_penalty(op[1])[0])
            elif op[0] == 'Constraints':
                s.SetConstraints(make_constraint(op[1], ndim)[0])
            elif op[0] == 'Ranges':
                lo, hi = ([-10.0] * ndim, [10.0] * ndim) if op[1] == 'wide' else ([-2.0] * ndim, [3.0] * ndim)
                s.SetStrictRanges(lo, hi, **({'tight': True} if op[1] == 'tight' else {}))
            elif op[0] == 'Limits':
                g, e, new = LIMITS[op[1]]
                s.SetEvaluationLimits(g, e, new=new)
            elif op[0] == 'EvalMon':
                set_evalmon(op[1])
            elif op[0] == 'GenMon':
                set_genmon(op[1])
            else:
                raise ValueError(op)
        except Exception as e:      # noqa -- not implied to succeed by C04: scenario aborted, reported in extra
            aborted = '%s %s: %s at op %d %r' % (kind, type(e).__name__, e, i, op)
            break
        reconf += op[0] not in ('Step', 'Solve')
        if sh['steps'] and op[0] in ('Penalty', 'Constraints', 'Ranges'):
            sh['reconf'] = True       # the objective itself changed mid-run
        check(i, stopped)
        if sh['steps'] and (stopped or op[0] in ('Penalty', 'Constraints', 'Ranges')):
            sh['fin_at'] = sh['steps']    # Finalize ran (directly, at a stop, or through _update_objective)
    return {'violations': viol, 'steps': sh['steps'], 'calls': rec.n, 'aborted': aborted, 'reconf': reconf}


_RCALLS, _RF = [], [None]


def _rcost(x):
    """module-level cost (pickled by reference): the restored solver calls THIS function, so its calls are counted in the
    same log as the calls made before the restart"""
    p = tuple(float(v) for v in x)
    y = _RF[0](p)
    _RCALLS.append((p, y))
    return y


def run_restart(sc):
    """a solver stepped k times, saved, abandoned, loaded from the file and stepped m more times: the restored solver's
    evaluation counter equals the number of calls over the whole life, its evaluation monitor holds exactly those calls
    in order, generations / step monitor / callbacks continue where the saved run stopped"""
    import mystic.solvers as ms
    from mystic.monitors import Monitor
    from mystic.termination import VTR
    seed_all(sc['seed'])
    del _RCALLS[:]
    _RF[0] = COSTS[sc['cost']]
    ndim, kind = sc['ndim'], sc['solver']
    rng = random.Random(sc['seed'])
    s = make_solver(kind, ndim)
    if kind in ('DE1', 'DE2'):
        s.SetRandomInitialPoints([-3.0] * ndim, [3.0] * ndim)
    else:
        s.SetInitialPoints([rng.uniform(-1.0, 2.0) for _ in range(ndim)])
    s.SetTermination(VTR(-1e300))
    s.SetEvaluationMonitor(Monitor())
    s.SetObjective(_rcost)
    fd, name = tempfile.mkstemp(prefix='rtc_c04_', suffix='.pkl', dir='/tmp')
    os.close(fd)
    viol = []
    try:
        with contextlib.redirect_stdout(io.StringIO()):
            for _ in range(sc['before']):
                s.Step()
            if sc['how'] == 'frequency':
                s.SetSaveFrequency(1, name)
                s.Step()
            else:
                s.SaveSolver(name)
            n_saved, g_saved = len(_RCALLS), s.generations
            del s
            t = ms.LoadSolver(name)
            # the life of the restored solver = the calls up to the moment of the dump + its own calls from now on.  An
            # explicit SaveSolver dumps between steps (all n_saved calls belong to it); the periodic dump is written
            # inside a step (for Powell in the middle of it, finding F16), so the calls the ABANDONED solver made after
            # the dump are not part of the restored solver's life: e0 of them are
            e0, n0, m0 = t.evaluations, len(_RCALLS), len(t._evalmon._x)
            g_saved = t.generations if sc['how'] == 'frequency' else g_saved
            cbs = []
            for _ in range(sc['after']):
                t.Step(callback=lambda x: cbs.append(1))
        own = len(_RCALLS) - n0
        if (sc['how'] == 'SaveSolver' and e0 != n_saved) or e0 > n_saved or t.evaluations - e0 != own:
            viol.append(('evaluation-counter-equals-calls#after-restart', 'restored solver: evaluations %r at load (%d calls before '
                         'the dump at most), %r after %d further calls' % (e0, n_saved, t.evaluations, own)))
        m = t._evalmon
        xs = [tuple(float(v) for v in x) for x in m._x]
        ys = [_f(y) for y in m._y]
        new = _RCALLS[n0:]
        old_ok = m0 == e0 and xs[:m0] == [c[0] for c in _RCALLS[:m0]]
        if not old_ok or xs[m0:] != [c[0] for c in new] or len(ys) != len(xs) or not all(_same(a, _f(c[1])) for a, c in zip(ys[m0:], new)):
            viol.append(('evaluation-monitor-equals-call-log#after-restart', 'restored solver: monitor had %d records at load (counter %d), '
                         'has %d now, %d further real calls' % (m0, e0, len(xs), own)))
        if t.generations != g_saved + sc['after']:
            viol.append(('generations-equal-completed-iterations#after-restart', 'restored solver: generations=%r, %d saved + %d after'
                         % (t.generations, g_saved, sc['after'])))
        if len(cbs) != sc['after']:
            viol.append(('callback-once-per-iteration#after-restart', '%d callbacks for %d steps' % (len(cbs), sc['after'])))
        eh = [_f(e) for e in t.energy_history]
        if eh and not _same(eh[-1], _f(t.bestEnergy)):
            viol.append(('energy-history-ends-in-best-energy#after-restart', 'history[-1]=%r bestEnergy=%r' % (eh[-1], _f(t.bestEnergy))))
    finally:
        if os.path.exists(name):
            os.remove(name)
    return {'violations': viol, 'steps': sc['before'] + sc['after'], 'calls': len(_RCALLS), 'aborted': None, 'reconf': 1}


def gen_restarts(seed, n):
    rng = random.Random(seed)
    return [dict(family='restart', solver=SOLVERS[k % 4], ndim=rng.choice([1, 2, 3]), cost=rng.choice(sorted(COSTS)),
                 before=rng.choice([1, 2, 4]), after=rng.choice([1, 3, 5]), how=rng.choice(['SaveSolver', 'frequency']),
                 seed=rng.randrange(10 ** 6)) for k in range(n)]


def _work(sc):
    if sc.get('family') == 'restart':
        try:
            return {'sc': sc, 'r': run_restart(sc)}
        except Exception as e:      # noqa -- harness failure is not a violation
            return {'sc': sc, 'r': {'violations': [], 'steps': 0, 'calls': 0, 'aborted': 'restart: %s %s' % (type(e).__name__, e), 'reconf': 0}}
    return {'sc': sc, 'r': run_scenario(sc)}


def run(tier='quick', seed=0):
    n = 2400 if tier == "quick" else 60000
    res = Result(rule='seeded random call sequences (Step / Solve with a new=True generation limit of 1-3 / SetPenalty / '
                      'SetConstraints / SetStrictRanges / SetEvaluationLimits / SetGenerationMonitor / '
                      'SetEvaluationMonitor / Finalize) x solver x cost x monitor kinds (Monitor, VerboseMonitor, '
                      'LoggingMonitor; initially empty; installed at setup or mid-run); all clauses evaluated after every '
                      'call against the Recorder log, a count of completed _Step invocations, per-iteration best '
                      'snapshots and the callback log; distinct = distinct (solver, termination, op-name sequence, '
                      'monitor kinds) with >= 2 completed iterations and >= 1 reconfiguration; plus restarts: k steps, '
                      'SaveSolver / SetSaveFrequency dump, LoadSolver, m more steps -- counter and evaluation monitor of the '
                      'restored solver against the log of all calls of its (module-level) cost',
                 bound='%d sequences of <= 12 calls, dims 1-3, 4 solvers' % n)
    for out in pmap(_work, gen_scenarios(seed * 1000003 + 4, n) + gen_restarts(seed * 7 + 11, 24 if tier == 'quick' else 400)):
        sc, r = out['sc'], out['r']
        if r['aborted']:
            res.extra.setdefault('aborted', []).append(r['aborted'][:160])
        if sc.get('family') == 'restart':
            res.case('restart|%s|%s|%d|%d' % (sc['solver'], sc['how'], sc['before'], sc['after']), nontrivial=r['steps'] >= 2, sample=sc)
            for clause, detail in r['violations']:
                res.violation('%s/%s/%s' % (P, sc['solver'], clause), detail, jsonable(sc))
            continue
        key = (sc['solver'], sc['term'], sc['evalmon0'], sc['genmon0'], tuple('/'.join(map(str, o)) if o[0] in
               ('EvalMon', 'GenMon') else o[0] for o in sc['ops']))
        res.case(repr(key), nontrivial=r['steps'] >= 3 and r['reconf'] >= 1,
                 sample={'solver': sc['solver'], 'ops': [o[0] for o in sc['ops']], 'steps': r['steps'], 'calls': r['calls']})
        for clause, detail in r['violations']:
            res.violation('%s/%s/%s' % (P, sc['solver'], clause), detail, jsonable(sc))
    res.extra['harness_errors_count'] = 0
    res.extra['aborted_count'] = len(res.extra.get('aborted', []))
    res.extra['aborted'] = res.extra.get('aborted', [])[:10]
    return res.out()


def replay(inp):
    if inp.get('family') == 'restart':
        return not run_restart(inp)['violations']
    return not run_scenario(inp)['violations']
