"""C07 bounded layer: results depend only on configuration and seed, not on call order or schedule.

Three scenario families, all through the public API:
 (i)   set-order : every permutation of a set of <= 5 distinct Set* configuration calls on DE1/DE2/NM/Powell.  The
       generators are seeded once before configuration, the calls are permuted, the initial population is then
       assigned explicitly and the generators are re-seeded immediately before stepping.  The trajectory (Step
       message, best solution/energy, whole population + energies, evaluation/generation counters after every
       Step, <= 10 steps) must be identical (==) to that of the reference (sorted) order.
 (ii)  de2-maps  : DE2 stepped and then solved with the builtin serial map vs. a custom serial map, a map that
       evaluates in reversed order, in shuffled order (private rng), on a thread pool, [thorough: on a process pool]:
       identical trajectory and final result.
 (iii) ensemble  : Lattice/Buckshot with NelderMead/Powell members: Solve() vs Step() until Terminated() vs
       Solve(step=True), and Solve() under the same maps via SetMapper: identical best solution, best energy and
       total number of evaluations; furthermore identical per-member results (solution, energy, generations,
       evaluations of every member) and identical recorded energies of the best member (if a generation monitor is set).
       Hypothesis "the members draw no random numbers while running" is tested on every scenario (map_probe) and
       scenarios outside it are skipped (e.g. SetStrictRanges(clip=False) re-draws exterior candidates).
 (iv)  ensemble2 : same clauses on ensembles (<= 6 members, <= 200 generations) whose members stop on a condition over
       their whole population / simplex (CandidateRelativeTolerance, PopulationSpread, Or/And compounds,
       VTRChangeOverGeneration) so that they finish at different ensemble steps, with every range mode
       (tight/clip), with and without generation / evaluation monitors; a step-wise mode is also run under a map.
"""
import math
import random
import itertools
from concurrent.futures import ThreadPoolExecutor
from .common import *       # noqa
from . import common as C

P = 'C07/bounded/'
CALLS = ['ranges', 'constraints', 'penalty', 'limits', 'termination', 'genmon', 'evalmon', 'reducer', 'savefreq']
RANGE_MODES = [(None, None), (None, None), (False, None), (True, None), (None, True), (True, True), (None, False)]
STRATEGIES = ['Best1Bin', 'Rand1Bin', 'Best1Exp', 'RandToBest1Exp', 'Best2Bin', 'Rand2Exp']
LO, HI = -2.0, 3.0


# ----------------------------------------------------------------------------- user callables (top level: picklable)
_PROBE = {'on': False, 'fp': None, 'draws': False}


def rng_fingerprint():
    st = np.random.get_state()
    return (hash(random.getstate()), hash(st[1].tobytes()), int(st[2]))


class Cost:
    def __init__(self, name, vector=False):
        self.name, self.vector = name, vector

    def __call__(self, x):
        if self.name == 'infwall':      # a finite bowl with a region where the user's cost itself is +inf
            v = float('inf') if float(x[0]) > 0.75 else COSTS['sphere'](x)
        else:
            v = COSTS[self.name](x)
        if _PROBE['on']:        # see map_probe
            if _PROBE['fp'] is None:
                _PROBE['fp'] = rng_fingerprint()
            elif _PROBE['fp'] != rng_fingerprint():
                _PROBE['draws'] = True
        return np.array([v / 2.0, v / 2.0]) if self.vector else v


def clamp(x):
    return [min(2.0, max(-1.0, float(v))) for v in x]


def penalty(x):
    return 20.0 * max(0.0, float(x[0]) - 0.25) ** 2


def _termination(kind, tol=None):
    """'vtr'/'cog'/'ncog' look at the best energy (history) only; 'crt'/'spread' look at the member's whole current
    population (simplex) and its energies; 'vtrcog', 'or', 'and' are the documented compounds of these"""
    from mystic import termination as T
    tol = 1e-3 if tol is None else tol
    if kind == 'vtr':
        return T.VTR(0.5)
    if kind == 'cog':
        return T.ChangeOverGeneration(1e-3, 3)
    if kind == 'crt':
        return T.CandidateRelativeTolerance(tol, tol)
    if kind == 'spread':
        return T.PopulationSpread(tol)
    if kind == 'vtrcog':
        return T.VTRChangeOverGeneration(tol, tol * 1e-2, 5)
    if kind == 'or':
        return T.Or(T.VTR(tol * 1e-3), T.CandidateRelativeTolerance(tol, tol))
    if kind == 'and':
        return T.And(T.ChangeOverGeneration(tol, 3), T.PopulationSpread(tol * 10))
    return T.NormalizedChangeOverGeneration(1e-4, 4)


def _r(v):
    return repr(float(np.asarray(v).ravel()[0]))


def snap(s, msg=None):
    return (str(msg), tuple(_r(v) for v in s.bestSolution), _r(s.bestEnergy),
            tuple(tuple(_r(v) for v in p) for p in s.population), tuple(_r(e) for e in s.popEnergy),
            int(s.evaluations), int(s.generations))


def first_diff(a, b):
    names = ['Step message', 'bestSolution', 'bestEnergy', 'population', 'popEnergy', 'evaluations', 'generations']
    for k, (x, y) in enumerate(zip(a, b)):
        if x != y:
            if isinstance(x, tuple) and isinstance(y, tuple) and len(x) == len(names) == len(y):
                for nm, u, v in zip(names, x, y):
                    if u != v:
                        return 'step %d: %s %s != %s' % (k, nm, str(u)[:150], str(v)[:150])
            return 'step %d: %s != %s' % (k, str(x)[:200], str(y)[:200])
    return 'lengths %d != %d' % (len(a), len(b))


# ----------------------------------------------------------------------------- (i) permutations of Set* calls
def apply_call(s, name, spec):
    from mystic.monitors import Monitor
    n = spec['ndim']
    if name == 'ranges':
        kw = {}
        if spec['tight'] is not None:
            kw['tight'] = spec['tight']
        if spec['clip'] is not None:
            kw['clip'] = spec['clip']
        s.SetStrictRanges([LO] * n, [HI] * n, **kw)
    elif name == 'constraints':
        s.SetConstraints(clamp)
    elif name == 'penalty':
        s.SetPenalty(penalty)
    elif name == 'limits':
        s.SetEvaluationLimits(generations=spec['maxgen'], evaluations=spec['maxfun'], **({'new': True} if spec.get('limits_new') else {}))
    elif name == 'termination':
        s.SetTermination(_termination(spec['term']))
    elif name == 'genmon':
        s.SetGenerationMonitor(Monitor())
    elif name == 'evalmon':
        m = Monitor()
        for k in range(spec.get('preloaded', 0)):       # a monitor that already holds records when it is installed
            m([float(k)] * n, 100.0 + k)
        s.SetEvaluationMonitor(m)
    elif name == 'reducer':
        s.SetReducer(sum, arraylike=True)
    elif name == 'savefreq':
        s.SetSaveFrequency(None)
    else:
        raise ValueError(name)


def run_perm(spec, order):
    """configure in the given order, assign the population, re-seed, step; returns the trajectory"""
    from mystic import strategy as S
    seed_all(spec['seed'])
    rng = random.Random(spec['seed'] + 1)
    n = spec['ndim']
    x0 = [rng.uniform(-1.5, 2.5) for _ in range(n)]
    s = make_solver(spec['solver'], n, spec.get('npop'))
    pop = [[rng.uniform(-1.5, 2.5) for _ in range(n)] for _ in range(s.nPop)]
    cost = Cost(spec['cost'], vector='reducer' in spec['calls'])
    kw = {'strategy': getattr(S, spec['strategy'])} if spec['solver'] in ('DE1', 'DE2') else {}
    traj = []
    try:
        for name in order:
            apply_call(s, name, spec)
        s.SetInitialPoints(list(x0))
        if spec['solver'] in ('DE1', 'DE2'):
            s.population = [list(p) for p in pop]       # explicit population: nothing is drawn
        s.SetObjective(cost)
        seed_all(spec['seed'] + 7)
        for k in range(spec['nsteps']):
            msg = s.Step(**kw)
            traj.append(snap(s, msg))
        traj.append(('monitors', len(s._stepmon), len(s._evalmon)))
    except Exception as e:      # noqa -- compared like any other observable
        traj.append(('EXC', type(e).__name__, str(e)[:100]))
    return traj


def gen_perm_specs(seed, n_per_solver, sizes):
    rng = random.Random(seed)
    out = []
    for solver in SOLVERS:
        seen = set()
        while len(seen) < n_per_solver:
            k = rng.choice(sizes)
            calls = tuple(sorted(rng.sample(CALLS, k)))
            tight, clip = rng.choice(RANGE_MODES) if 'ranges' in calls else (None, None)
            if (calls, tight, clip) in seen:
                continue
            seen.add((calls, tight, clip))
            out.append(dict(kind='perm', solver=solver, ndim=rng.choice([1, 2, 2, 3]), cost=rng.choice(sorted(COSTS)),
                            calls=list(calls), tight=tight, clip=clip, maxgen=rng.choice([3, 6, 50]),
                            maxfun=rng.choice([25, 10 ** 6]), term=rng.choice(['vtr', 'cog', 'ncog']),
                            strategy=rng.choice(STRATEGIES), seed=rng.randrange(10 ** 6), nsteps=rng.choice([6, 10])))
        # limits given with new=True next to an evaluation monitor that already holds records (own generator)
        r2 = random.Random(seed * 23 + 5 + len(out))
        for extra in (['evalmon', 'limits'], ['evalmon', 'limits', 'penalty']):
            out.append(dict(kind='perm', solver=solver, ndim=r2.choice([1, 2, 3]), cost=r2.choice(sorted(COSTS)), calls=sorted(extra),
                            tight=None, clip=None, maxgen=50, maxfun=r2.choice([20, 35]), term='vtr', strategy=r2.choice(STRATEGIES),
                            seed=r2.randrange(10 ** 6), nsteps=10, preloaded=r2.choice([3, 8]), limits_new=True))
    return out


def work_perm(spec):
    res = Result('', '')
    ref = run_perm(spec, spec['calls'])
    aborted = [ref[-1][:2]] if ref and ref[-1][0] == 'EXC' else []
    for order in itertools.permutations(spec['calls']):
        order = list(order)
        key = '%s:%s:%s/%s' % (spec['solver'], ','.join(order), spec['tight'], spec['clip'])
        if order == spec['calls']:
            res.case(key, nontrivial=len(ref) > 1)
            continue
        t = run_perm(spec, order)
        res.case(key, nontrivial=len(t) > 1)
        if t != ref:
            res.violation(P + 'set-order/trajectory-differs-across-permutations',
                          '%s reference order %s vs %s: %s' % (spec['solver'], spec['calls'], order, first_diff(ref, t)),
                          jsonable(dict(spec, order=order)))
    out = res.part()
    out['aborted'] = aborted
    return out


# ----------------------------------------------------------------------------- maps
def map_serial(f, *args, **kw):
    return [f(*a) for a in zip(*args)]


def map_probe(f, *args, **kw):
    """serial map that tests the hypothesis "the member solvers draw no random numbers while running": a member's start
    points are drawn before its first cost evaluation; from then until the work item returns the global generators
    must not move (Cost.__call__ compares their state at every evaluation, here once more at the end)"""
    out = []
    for a in zip(*args):
        _PROBE.update(on=True, fp=None)
        try:
            out.append(f(*a))
        finally:
            _PROBE['on'] = False
        if _PROBE['fp'] is not None and _PROBE['fp'] != rng_fingerprint():
            _PROBE['draws'] = True
    return out


def map_reversed(f, *args, **kw):
    items = list(zip(*args))
    out = [None] * len(items)
    for i in reversed(range(len(items))):
        out[i] = f(*items[i])
    return out


def map_shuffled(f, *args, **kw):
    items = list(zip(*args))
    idx = list(range(len(items)))
    random.Random(len(items) * 7919 + 13).shuffle(idx)     # private generator: the global stream is untouched
    out = [None] * len(items)
    for i in idx:
        out[i] = f(*items[i])
    return out


def map_threads(f, *args, **kw):
    with ThreadPoolExecutor(4) as ex:
        return list(ex.map(f, *args))


def _dill_call(payload):
    import dill
    f, a = dill.loads(payload)
    return dill.dumps(f(*a))


_POOL = [None]


def map_processes(f, *args, **kw):
    """process-based map: work items are shipped with dill to a multiprocessing pool (thorough tier, main process)"""
    import dill
    payloads = [dill.dumps((f, a)) for a in zip(*args)]
    return [dill.loads(r) for r in _POOL[0].map(_dill_call, payloads)]


MAPS = {'probe': map_probe, 'serial': map_serial, 'reversed': map_reversed, 'shuffled': map_shuffled, 'threads': map_threads,
        'processes': map_processes}
QUICK_MAPS = ['serial', 'reversed', 'shuffled', 'threads']


# ----------------------------------------------------------------------------- (ii) DE2 under different maps
def run_de2(spec, mapname):
    from mystic import strategy as S
    from mystic.monitors import Monitor
    from mystic.solvers import DifferentialEvolutionSolver2
    seed_all(spec['seed'])
    n = spec['ndim']
    s = DifferentialEvolutionSolver2(n, spec['npop'])
    s.SetRandomInitialPoints([-1.5] * n, [2.5] * n)
    if spec['bounds']:
        kw = {'tight': True} if spec['bounds'] == 'tight' else {}
        s.SetStrictRanges([LO] * n, [HI] * n, **kw)
    if spec['cons']:
        s.SetConstraints(clamp)
    if spec['pen']:
        s.SetPenalty(penalty)
    if spec['evalmon']:
        s.SetEvaluationMonitor(Monitor())
    s.SetTermination(_termination(spec['term']))
    s.SetEvaluationLimits(generations=spec['nsteps'] + 15, **({'evaluations': spec['maxfun']} if spec.get('maxfun') else {}))
    if mapname != 'builtin':
        s.SetMapper(MAPS[mapname])
    s.SetObjective(Cost(spec['cost']))
    kw = dict(strategy=getattr(S, spec['strategy']), CrossProbability=spec['cr'], ScalingFactor=spec['f'])
    traj = []
    seed_all(spec['seed'] + 7)
    for k in range(spec['nsteps']):
        traj.append(snap(s, s.Step(**kw)))
    s.Solve(**kw)
    traj.append(snap(s, 'solved'))
    return traj


def gen_de2_specs(seed, n):
    rng = random.Random(seed + 101)
    return [dict(kind='de2map', ndim=rng.choice([1, 2, 3, 4]), npop=rng.choice([6, 7, 9, 12]),
                 cost=rng.choice(sorted(COSTS)), strategy=rng.choice(STRATEGIES + ['Rand1Exp', 'Best2Exp', 'Rand2Bin',
                                                                                  'RandToBest1Bin']),
                 bounds=rng.choice([False, True, 'tight']), cons=rng.random() < 0.4, pen=rng.random() < 0.4,
                 evalmon=rng.random() < 0.4, term=rng.choice(['vtr', 'cog', 'ncog']), cr=rng.choice([0.1, 0.5, 0.9, 1.0]),
                 f=rng.choice([0.4, 0.8, 1.2]), seed=rng.randrange(10 ** 6), nsteps=rng.choice([3, 8, 15]))
            for _ in range(n)] + [
        # a cost that is +inf in part of the box, an evaluation monitor and a binding evaluation limit (own generator)
        dict(kind='de2map', ndim=r2.choice([2, 3]), npop=r2.choice([6, 9]), cost='infwall', strategy=r2.choice(STRATEGIES), bounds=False,
             cons=False, pen=False, evalmon=True, term='vtr', cr=0.9, f=0.8, seed=r2.randrange(10 ** 6), nsteps=3,
             maxfun=r2.choice([60, 90]))
        for r2 in [random.Random(seed * 29 + 3 + j) for j in range(max(1, n // 20))]]


def check_de2(spec, maps, res, extra=None):
    ref = safe(run_de2, spec, 'builtin')
    res.case('de2:builtin:%d' % spec['seed'])
    for m in maps:
        t = safe(run_de2, spec, m)
        if t is None:
            if extra is not None:
                extra.setdefault('not_explored', []).append('DE2 processes: not picklable')
            continue
        res.case('de2:%s:%d' % (m, spec['seed']))
        if t != ref:
            # known sub-case (F48): the user's cost returns inf and the run is stopped by an evaluation limit -- the builtin
            # map counts the monitor's records, every other map counts the finite energies (F6)
            sub = '#cost-returns-inf,evaluation-limit' if (spec['cost'] == 'infwall' and spec.get('maxfun')) else ''
            res.violation(P + 'de2-maps/trajectory-differs-from-builtin-serial-map' + sub,
                          'map=%s: %s' % (m, first_diff(ref, t)), jsonable(dict(spec, map=m)))


def work_de2(spec):
    res = Result('', '')
    check_de2(spec, QUICK_MAPS, res)
    return res.part()


# ----------------------------------------------------------------------------- (iii) ensembles
PRE = 'a member already satisfied its termination on its drawn start population, before its first Step'


def _terminated_unstarted(m):
    try:
        return m is not None and not len(m._stepmon) and not m.generations and bool(m.Terminated())
    except Exception:      # noqa
        return False


def run_ens(spec, mode, mapname):
    """returns (bestSolution, bestEnergy, total evaluations, per-member results, best member's recorded energies)"""
    from mystic.monitors import Monitor
    from mystic.solvers import LatticeSolver, BuckshotSolver, NelderMeadSimplexSolver, PowellDirectionalSolver
    seed_all(spec['seed'])
    n = spec['ndim']
    if spec['ens'] == 'lattice':
        s = LatticeSolver(n, nbins=tuple(spec['nbins']))
    else:
        s = BuckshotSolver(n, npts=spec['npts'])
    klass = NelderMeadSimplexSolver if spec['nested'] == 'NM' else PowellDirectionalSolver
    cost = Cost(spec['cost'])
    tol = spec.get('tol')
    if spec['instance']:       # a configured solver instance ('bare': its objective is left to the ensemble)
        inner = klass(n)
        inner.SetEvaluationLimits(generations=spec['maxgen'])
        inner.SetTermination(_termination(spec['term'], tol))
        if spec['instance'] == 'with-objective':
            inner.SetObjective(cost)
        s.SetNestedSolver(inner)
    else:
        s.SetNestedSolver(klass)
    if spec['bounds']:
        kw = {}
        if spec.get('tight') is not None:
            kw['tight'] = spec['tight']
        if spec.get('clip') is not None:
            kw['clip'] = spec['clip']
        s.SetStrictRanges([LO] * n, [HI] * n, **kw)
    if spec['cons']:
        s.SetConstraints(clamp)
    if spec['pen']:
        s.SetPenalty(penalty)
    if spec.get('genmon'):
        s.SetGenerationMonitor(Monitor())
    if spec.get('evalmon'):
        s.SetEvaluationMonitor(Monitor())
    s.SetEvaluationLimits(generations=spec['maxgen'])
    s.SetTermination(_termination(spec['term'], tol))
    if mapname != 'builtin':
        s.SetMapper(MAPS[mapname])
    try:
        if mode == 'solve':
            s.Solve(cost)
        elif mode == 'solve-step':
            s.Solve(cost, step=True)
        else:
            s.SetObjective(cost)
            guard = 0
            while not s.Terminated() and guard < 4000:
                s.Step()
                guard += 1
            if guard >= 4000:
                return ('no termination after 4000 steps',)
    except Exception as e:      # noqa -- situation of the failure, tested on the concrete members (sub-case of the key)
        if 'pickl' not in (str(e) + type(e).__name__).lower() and any(_terminated_unstarted(m) for m in s._allSolvers):
            return ('EXC', type(e).__name__, str(e)[:100], PRE)
        raise
    members = tuple((tuple(_r(v) for v in m.bestSolution), _r(m.bestEnergy), int(m.generations), int(m.evaluations))
                    for m in s._allSolvers)
    path = tuple(_r(e) for e in s._stepmon._y) if spec.get('genmon') else ()
    return (tuple(_r(v) for v in s.bestSolution), _r(s.bestEnergy), int(s._total_evals), members, path)


def gen_ens_specs(seed, n):
    rng = random.Random(seed + 202)
    out = []
    for _ in range(n):
        ndim = rng.choice([1, 2, 2, 3])
        out.append(dict(kind='ens', ens=rng.choice(['lattice', 'buckshot']), nested=rng.choice(['NM', 'Powell']),
                        ndim=ndim, nbins=[rng.choice([1, 2, 3]) for _ in range(ndim)], npts=rng.choice([1, 3, 5]),
                        cost=rng.choice(sorted(COSTS)), bounds=rng.random() < 0.7, cons=rng.random() < 0.3,
                        pen=rng.random() < 0.3, instance=rng.choice([False, False, False, 'bare', 'with-objective']), maxgen=rng.choice([5, 25, 60]),
                        term=rng.choice(['vtr', 'cog', 'ncog']), seed=rng.randrange(10 ** 6)))
    return out


POP_TERMS = ['crt', 'spread', 'or', 'and', 'crt', 'spread', 'vtrcog', 'ncog']


def gen_ens2_specs(seed, n):
    """ensembles whose members stop on a condition over their whole population (simplex), run long enough for the
    members to stop at different ensemble steps; all range modes; with/without generation and evaluation monitors;
    the step-wise modes are additionally run under one of the maps"""
    rng = random.Random(seed + 303)
    out = []
    for _ in range(n):
        ndim = rng.choice([1, 2, 2, 3])
        nbins = [3] * ndim
        while np.prod(nbins) > 6:       # <= 6 members: a step-wise run costs O(members x generations^2)
            nbins = [rng.choice([1, 2, 3]) for _ in range(ndim)]
        nested = rng.choice(['NM', 'NM', 'NM', 'Powell'])
        term = rng.choice(POP_TERMS if nested == 'NM' else ['and', 'vtrcog', 'cog', 'ncog'])   # crt, spread: nPop > 1
        tight, clip = rng.choice(RANGE_MODES)
        out.append(dict(kind='ens2', ens=rng.choice(['lattice', 'buckshot']), nested=nested, ndim=ndim,
                        nbins=nbins, npts=rng.choice([2, 3, 5]),
                        cost=rng.choice(sorted(COSTS)), bounds=rng.random() < 0.8, tight=tight, clip=clip,
                        cons=rng.random() < 0.2, pen=rng.random() < 0.2, instance=False,
                        genmon=rng.random() < 0.5, evalmon=rng.random() < 0.3, maxgen=rng.choice([40, 100, 200]),
                        term=term, tol=rng.choice([1e-2, 1e-3, 1e-4]), stepmap=rng.choice(QUICK_MAPS), stepmode=rng.choice(['step', 'solve-step']),
                        seed=rng.randrange(10 ** 6)))
    return out


def safe(fn, spec, *a):
    """an exception of mystic is compared like any other outcome; None = process map could not pickle (not explored)"""
    try:
        return fn(spec, *a)
    except Exception as e:      # noqa
        if a[-1] == 'processes' and ('pickl' in str(e).lower() or 'pickl' in type(e).__name__.lower()):
            return None
        return [('EXC', type(e).__name__, str(e)[:100])]


RESULT_PARTS = ['bestSolution', 'bestEnergy', 'total evaluations', 'per-member (solution, energy, generations, '
                'evaluations)', "best member's recorded energies"]


def ens_diff(ref, r):
    """(clause suffix, text) of the first observable in which two ensemble outcomes differ"""
    if len(ref) != len(RESULT_PARTS) or len(r) != len(RESULT_PARTS):
        return '', '%s vs %s' % (str(ref)[:200], str(r)[:200])
    for k, (nm, x, y) in enumerate(zip(RESULT_PARTS, ref, r)):
        if x != y:
            if k == 3 and len(x) == len(y):
                i = [a != b for a, b in zip(x, y)].index(True)
                return '/member-results', 'member %d: %s vs %s' % (i, x[i], y[i])
            return ('' if k < 3 else '/member-results' if k == 3 else '/best-trajectory',
                    '%s: %s vs %s' % (nm, str(x)[:200], str(y)[:200]))
    return '', 'equal'


def pre_sub(ref, r):
    """sub-case: one of the two runs failed because a member was 'terminated' before it ever stepped (see PRE)"""
    return '#member-terminated-before-first-step' if PRE in (ref[-1], r[-1]) else ''


def check_ens(spec, maps, res, extra=None):
    def go(mode, m):
        r = safe(run_ens, spec, mode, m)
        return r[0] if isinstance(r, list) else r
    tag = '%s/%s:%d' % (spec['ens'], spec['nested'], spec['seed'])
    _PROBE['draws'] = False
    go('solve', 'probe')
    ref = go('solve', 'builtin')
    if _PROBE['draws']:         # outside the hypothesis of the ensemble clauses: nothing is demanded
        res.case('ens:solve:builtin:' + tag, nontrivial=False)
        if extra is not None:
            extra['outside_hypothesis'] = extra.get('outside_hypothesis', 0) + 1
        return
    res.case('ens:solve:builtin:' + tag, nontrivial=ref[0] != 'EXC')
    if ref[0] == 'EXC' and extra is not None:
        extra.setdefault('aborted', []).append(str(ref))
    stepwise = [('step', 'builtin'), ('solve-step', 'builtin')]
    if spec.get('stepmap') in maps:
        stepwise.append((spec['stepmode'], spec['stepmap']))
    for mode, m in stepwise:
        r = go(mode, m)
        res.case('ens:%s:%s:%s' % (mode, m, tag))
        if r != ref:
            sub = ''
            if spec['instance'] == 'bare' and r[0] == 'EXC' and 'NoneType' in r[2]:
                sub = '#configured-nested-instance-without-objective'
            clause, txt = ens_diff(ref, r)
            sub = sub or pre_sub(ref, r)
            res.violation(P + 'ensemble/step-wise-differs-from-run-to-completion' + clause + sub,
                          '%s: Solve[builtin] vs %s[%s]: %s' % (tag, mode, m, txt),
                          jsonable(dict(spec, mode=mode, map=m)))
    for m in maps:
        r = go('solve', m)
        if r is None:
            if extra is not None:
                extra.setdefault('not_explored', []).append('ensemble processes: not picklable')
            continue
        res.case('ens:solve:%s:%s' % (m, tag))
        if r != ref:
            clause, txt = ens_diff(ref, r)
            res.violation(P + 'ensemble/result-depends-on-map' + clause + pre_sub(ref, r),
                          '%s: builtin vs %s: %s' % (tag, m, txt), jsonable(dict(spec, mode='solve', map=m)))


def work_ens(spec):
    res = Result('', '')
    extra = {}
    check_ens(spec, QUICK_MAPS, res, extra)
    out = res.part()
    out['aborted'] = extra.get('aborted', [])
    out['outside_hypothesis'] = extra.get('outside_hypothesis', 0)
    return out


# ----------------------------------------------------------------------------- driver
def _work(spec):
    return {'perm': work_perm, 'de2map': work_de2, 'ens': work_ens, 'ens2': work_ens}[spec['kind']](spec)


def run(tier='quick', seed=0):
    quick = tier == 'quick'
    n_perm, sizes = (18, [2, 3, 4, 5, 5, 5]) if quick else (150, [1, 2, 3, 4, 5, 5, 5])
    n_de2, n_ens, n_ens2 = (160, 160, 64) if quick else (3000, 3000, 1500)
    res = Result(
        rule='(i) seeded subsets of <= 5 distinct Set* calls x ALL their permutations per solver type (DE1, DE2, NM, '
             'Powell), trajectory over <= 10 Steps compared == with the sorted order; (ii) seeded DE2 settings, builtin '
             'map vs serial/reversed/shuffled/thread-pool (thorough: + process-pool) maps, trajectory and Solve result '
             'compared ==; (iii) seeded Lattice/Buckshot ensembles with NM/Powell members: Solve vs Step-until-Terminated '
             'vs Solve(step=True) and Solve under each map: (bestSolution, bestEnergy, total evaluations), per-member '
             '(solution, energy, generations, evaluations) and the best member\'s recorded energies compared ==; (iv) the '
             'same on ensembles whose members stop on population-based terminations (CRT, PopulationSpread, Or/And, '
             'VTRCOG) under all range modes and monitors, one step-wise mode also under a map; ensemble scenarios whose '
             'members draw random numbers while running (tested per scenario) are skipped. '
             'distinct = distinct (solver, call order, range mode) / (scenario, map) / (scenario, mode, map)',
        bound='%d call sets per solver type (all permutations each), %d DE2 scenarios x 4 maps, %d ensemble scenarios '
              'x 3 modes x 4 maps, %d population-terminated ensemble scenarios x (3 modes x 4 maps + 1 step-wise mode '
              'under a map)%s; dims 1-4, <= 10 steps (i), <= 30 generations (ii), <= 60 generations/member (iii), <= 6 '
              'members x <= 200 generations (iv)'
              % (n_perm, n_de2, n_ens, n_ens2, '' if quick else ', process-pool map on 40 DE2 + 40 + 40 ensemble '
                 'scenarios'))
    specs = gen_perm_specs(seed, n_perm, sizes) + gen_de2_specs(seed, n_de2) + gen_ens_specs(seed, n_ens) + \
        gen_ens2_specs(seed, n_ens2)
    specs.sort(key=lambda sp: -math.factorial(len(sp['calls'])) if sp['kind'] == 'perm' else 0)
    for kind in ('perm', 'de2map', 'ens', 'ens2'):
        res.samples.append(jsonable([sp for sp in specs if sp['kind'] == kind][0]))
    for part in pmap(_work, specs):
        res.merge(part)
        for a in part.get('aborted', []):
            res.extra.setdefault('aborted', []).append(str(a)[:160])
        if part.get('outside_hypothesis'):
            res.extra['ensemble_scenarios_skipped_members_draw_random_numbers'] = \
                res.extra.get('ensemble_scenarios_skipped_members_draw_random_numbers', 0) + part['outside_hypothesis']
    if not quick:
        # process-based maps cannot be nested inside the (daemonic) pmap workers: run them here
        import multiprocessing as mp
        _POOL[0] = mp.Pool(4)
        tmp = Result(res.rule, res.bound)
        try:
            for spec in gen_de2_specs(seed + 1, 40):
                check_de2(spec, ['processes'], tmp, res.extra)
            for spec in gen_ens_specs(seed + 1, 40) + gen_ens2_specs(seed + 1, 40):
                check_ens(spec, ['processes'], tmp, res.extra)
        finally:
            _POOL[0].close()
            _POOL[0] = None
        # a difference seen under the process pool is reported only if it repeats in a fresh interpreter with a fresh
        # pool: the pool here is forked from a process that has already run thousands of scenarios, on a machine that
        # may be busy, and a one-off failure of that plumbing (seen once: TypeError from a worker, never again in 12
        # repetitions of the same scenario) is not a dependence of the result on the map.  Counted, never hidden.
        confirmed = []
        for v in tmp.violations:
            if _repeats_in_a_fresh_interpreter(v['input']):
                confirmed.append(v)
            else:
                res.extra.setdefault('process_map_differences_not_repeated_in_a_fresh_interpreter', []).append(
                    ('%s: %s' % (v['key'], v['detail']))[:300])
        tmp.violations = confirmed
        res.merge(tmp.part())
    else:
        res.extra['not_explored'] = ['process-based maps (thorough tier only)']
    if res.extra.get('outside_hypothesis'):
        res.extra['ensemble_scenarios_skipped_members_draw_random_numbers'] = \
            res.extra.get('ensemble_scenarios_skipped_members_draw_random_numbers', 0) + res.extra['outside_hypothesis']
    res.extra.pop('outside_hypothesis', None)
    for k in ('aborted', 'not_explored'):
        if k in res.extra:
            res.extra[k] = sorted(set(res.extra[k]))[:20]
    return res.out()


def _repeats_in_a_fresh_interpreter(inp):
    """True unless a new python process (same environment, hence the same tree) finds that the scenario holds"""
    import subprocess, sys, json, os
    here = os.path.dirname(os.path.dirname(os.path.abspath(__file__)))
    code = ('import sys, json; sys.path.insert(0, %r); from rtc import c07; '
            'print("HELD" if c07.replay(json.loads(sys.stdin.read())) else "DIFFERS")' % here)
    try:
        r = subprocess.run([sys.executable, '-c', code], input=json.dumps(jsonable(inp)), capture_output=True, text=True,
                           timeout=600, cwd=here)
    except Exception:      # noqa
        return True
    return 'HELD' not in r.stdout


def replay(inp):
    if inp['kind'] == 'perm':
        return run_perm(inp, inp['calls']) == run_perm(inp, inp['order'])
    if inp['map'] == 'processes':
        import multiprocessing as mp
        _POOL[0] = mp.Pool(2)
    try:
        if inp['kind'] == 'de2map':
            return safe(run_de2, inp, 'builtin') == safe(run_de2, inp, inp['map'])
        _PROBE['draws'] = False
        safe(run_ens, inp, 'solve', 'probe')
        return _PROBE['draws'] or safe(run_ens, inp, 'solve', 'builtin') == safe(run_ens, inp, inp['mode'], inp['map'])
    finally:
        if _POOL[0] is not None:
            _POOL[0].close()
            _POOL[0] = None
