"""C06 bounded layer: a checkpointed solver resumes exactly as if it had never been interrupted; restored solvers
and deep copies are independent of the original and count their own evaluations.

For every (solver, setting) a plain uninterrupted run of T steps gives the expected full observable state S[j] after
every step and the (random, numpy.random) generator states.  A second, identically configured run is checkpointed at
EVERY boundary k (SaveSolver file / periodic SetSaveFrequency dump / dill.dumps); each checkpoint is restored
(LoadSolver / dill.loads), the generator states of boundary k are reinstated, and after every further Step the full
state must equal S[k+j].  The user's cost is a module-level function (pickled by reference) that counts real calls in
this process, so the harness knows how many evaluations each instance really made while IT was being stepped."""
import io
import os
import copy
import random
import tempfile
import contextlib
import itertools
from .common import *       # noqa
from .solver_runs import make_constraint, make_penalty

P = 'C06/bounded'
T = 12                      # steps of the reference run: boundaries k = 0 (unstarted) .. 11 (generation 10)
N = [0]                     # real cost calls made in this process
_COST = ['rosen']
NC = object()               # "not comparable" (callables, monitors, ...)
SKIP = {'_state'}           # the registered restart file name legitimately differs


def gcost(x):
    N[0] += 1
    return COSTS[_COST[0]](tuple(float(v) for v in x))


def canon(v):
    if v is None or isinstance(v, str):
        return repr(v)
    if isinstance(v, (bool, int, float, np.integer, np.floating)):
        return repr(float(v))
    if isinstance(v, np.ndarray):
        return canon(v.tolist()) if v.dtype.kind in 'biuf' else NC
    if isinstance(v, (list, tuple)):
        c = [canon(t) for t in v]
        return NC if any(t is NC for t in c) else tuple(c)
    return NC


def snap(s):
    """full observable state: public attributes, monitor contents, and every numeric entry of __dict__ (this is where
    Powell's direction set / __internals, the simplex, genealogy, limits and the call counter live)"""
    d = {}
    for k, v in s.__dict__.items():
        c = canon(v)
        if k not in SKIP and c is not NC:
            d['.' + k] = c
    for name in ('population', 'popEnergy', 'bestSolution', 'bestEnergy', 'generations', 'evaluations',
                 'solution_history', 'energy_history'):
        d[name] = canon(getattr(s, name))
    for mon in ('_stepmon', '_evalmon'):
        m = getattr(s, mon)
        d[mon] = (canon(list(m._x)), canon(list(m._y)), canon(list(m._id)))
    return d


def diff(a, b):
    return sorted(k for k in set(a) | set(b) if a.get(k, NC) != b.get(k, NC))


def rng_get():
    return random.getstate(), np.random.get_state()


def rng_set(g):
    random.setstate(g[0])
    np.random.set_state(g[1])


def _tmp(files, suffix):
    fd, name = tempfile.mkstemp(prefix='rtc_c06_', suffix=suffix, dir='/tmp')
    os.close(fd)
    files.append(name)
    return name


def build(sc, files):
    from mystic.termination import VTR
    from mystic.monitors import Monitor, LoggingMonitor
    seed_all(sc['seed'])
    _COST[0] = sc['cost']
    N[0] = 0
    kind, ndim = sc['solver'], sc['ndim']
    rng = random.Random(sc['seed'])
    s = make_solver(kind, ndim)
    if kind in ('DE1', 'DE2'):
        s.SetRandomInitialPoints([-2.0] * ndim, [3.0] * ndim)
        s.strategy = sc.get('strategy', 'Best1Bin')
    else:
        s.SetInitialPoints([rng.uniform(-1.0, 2.0) for _ in range(ndim)])
    if sc['bounds']:
        s.SetStrictRanges([-2.0] * ndim, [3.0] * ndim, **({'tight': True} if sc['bounds'] == 'tight' else {}))
    if sc['cons'] != 'none':
        s.SetConstraints(make_constraint(sc['cons'], ndim)[0])
    if sc['pen'] != 'none':
        s.SetPenalty(make_penalty(sc['pen'])[0])
    if sc['evalmon']:
        s.SetEvaluationMonitor(Monitor())
    if sc['genmon']:
        s.SetGenerationMonitor(Monitor() if sc['genmon'] == 'Monitor' else LoggingMonitor(1, _tmp(files, '.log')))
    s.SetTermination(VTR(-1e300))
    s.SetObjective(gcost)
    if sc['path'] == 'periodic':
        s.SetSaveFrequency(sc['freq'], _tmp(files, '.pkl'))
        os.remove(files[-1])                      # so that "no dump yet" is visible
    return s


def reference(sc, files, saver=None):
    """uninterrupted run; returns states S[0..T], generator states G[0..T], real call counts E[0..T], blobs {k: bytes}"""
    s = build(sc, files)
    S, G, E, B = [], [], [], {}
    for j in range(T + 1):
        if j:
            # algorithm options given as keywords (as Solve(adaptive=True) hands them to every Step): sticky, so a RESTORED
            # solver -- continued with a plain Step() -- must go on with them
            s.Step(**sc.get('opts', {}))
        if saver is not None:
            b = saver(s, j)
            if b is not None:
                B[j] = b
        S.append(snap(s))
        G.append(rng_get())
        E.append(N[0])
    return S, G, E, B


def make_saver(sc, files):
    import dill
    path = sc['path']
    if path == 'dill':
        return lambda s, k: dill.dumps(s)
    if path == 'SaveSolver':
        fn = _tmp(files, '.pkl')

        def saver(s, k):
            s.SaveSolver(fn)
            with open(fn, 'rb') as f:
                return f.read()
        return saver
    last = [None]

    def periodic(s, k):          # the dump (if any) was written by the solver itself during Step k
        fn = s._state
        if not fn or not os.path.exists(fn):
            return None
        with open(fn, 'rb') as f:
            b = f.read()
        if b == last[0]:
            return None
        last[0] = b
        return b
    return periodic


def restore(sc, blob, files, how=None):
    import dill
    from mystic.solvers import LoadSolver
    if (how or sc['path']) == 'dill':
        return dill.loads(blob)
    fn = _tmp(files, '.pkl')
    with open(fn, 'wb') as f:
        f.write(blob)
    return LoadSolver(fn)


def run_unit(sc):
    files = []
    try:
        with contextlib.redirect_stdout(io.StringIO()):
            return (_independence if sc['path'] == 'independence' else _resume)(sc, files)
    finally:
        for name in files:
            if os.path.exists(name):
                os.remove(name)


def _show(a, b, keys):
    k = keys[0]
    return '%d fields differ %r; e.g. %s: got %s expected %s' % (len(keys), keys[:6], k, str(a.get(k))[:110], str(b.get(k))[:110])


def _resume(sc, files):
    viol, cases = [], []

    def v(clause, detail, k):
        if clause not in [c for c, _, _ in viol]:
            viol.append((clause, detail, k))
    S, G, E, _ = reference(sc, files)
    S2, G2, E2, B = reference(sc, files, make_saver(sc, files))
    for j in range(T + 1):
        d = diff(S2[j], S[j])
        if d:
            v('saving-does-not-perturb-the-run', 'after step %d of the checkpointed run: %s' % (j, _show(S2[j], S[j], d)), j)
            break
    for k in sorted(B):
        if k > sc.get('kmax', 11):
            continue
        if k == 0 and sc.get('opts'):
            continue        # a checkpoint taken before the first Step cannot know options that were not given yet
        own = E2[k]
        bad = False
        for j in range(k + 1, T + 1):
            n0 = N[0]
            try:                        # restoring and continuing must succeed: the property says it resumes exactly
                if j == k + 1:
                    r = restore(sc, B[k], files)
                    rng_set(G2[k])
                r.Step()
            except Exception as e:      # noqa
                v('resumed-run-equals-uninterrupted', 'checkpoint after step %d (generation %d), further step %d raised %s: %s'
                  % (k, max(0, k - 1), j - k, type(e).__name__, e), k)
                bad = True
                break
            own += N[0] - n0
            now = snap(r)
            d = diff(now, S[j])
            if d:
                v('resumed-run-equals-uninterrupted', 'checkpoint after step %d (generation %d), %d further steps: %s'
                  % (k, max(0, k - 1), j - k, _show(now, S[j], d)), k)
                bad = True
                break
            if r.evaluations != own:
                v('resumed-solver-counts-its-own-evaluations', 'checkpoint after step %d, %d further steps: evaluations=%r, '
                  'real calls %d' % (k, j - k, r.evaluations, own), k)
                bad = True
                break
        cases.append((k, T - k, bad))
    return {'violations': viol, 'cases': cases, 'dumps': sorted(B)}


def _independence(sc, files):
    import dill
    viol, cases = [], []

    def v(clause, detail, k):
        if clause not in [c for c, _, _ in viol]:
            viol.append((clause, detail, k))
    S, G, E, _ = reference(sc, files)
    s = build(sc, files)
    f7 = sc['solver'] in ('DE1', 'NM')
    for k in range(0, 11):
        before = snap(s)
        g = rng_get()
        copies = []
        for how in ('deepcopy', 'dill', 'LoadSolver'):
            c = copy.deepcopy(s) if how == 'deepcopy' else restore(sc, dill.dumps(s), files, 'dill' if how == 'dill' else 'file')
            own = E[k]
            for j in range(2):
                n0 = N[0]
                try:
                    c.Step()
                except Exception as e:      # noqa
                    v('copy-can-be-advanced/' + how, 'copy made after step %d raised %s: %s' % (k, type(e).__name__, e), k)
                    break
                own += N[0] - n0
                if c.evaluations != own:
                    v('copy-counts-its-own-evaluations/%s%s' % (how, '#F7' if how == 'deepcopy' and f7 else ''),
                      'copy made after step %d, stepped %d times: its evaluations=%r, inherited %d + %d real calls of its own'
                      % (k, j + 1, c.evaluations, E[k], own - E[k]), k)
            d = diff(snap(s), before)
            if d:
                v('advancing-copy-leaves-original-unchanged/' + how, 'copy made after step %d and stepped twice: original '
                  'changed: %s' % (k, _show(snap(s), before, d)), k)
                before = snap(s)        # attribute a change to the copy that caused it
            copies.append((how, c, snap(c)))
        rng_set(g)
        s.Step()
        d = diff(snap(s), S[k + 1])
        if d:
            v('advancing-copy-leaves-original-unchanged/trajectory', 'original after step %d differs from the plain run: %s'
              % (k + 1, _show(snap(s), S[k + 1], d)), k)
        for how, c, was in copies:
            d = diff(snap(c), was)
            if d:
                v('advancing-original-leaves-copy-unchanged/' + how, 'original stepped after the copy of step %d was made: '
                  'copy changed: %s' % (k, _show(snap(c), was, d)), k)
        cases.append((k, 2, False))
    return {'violations': viol, 'cases': cases, 'dumps': []}


SETTINGS = [dict(bounds=None, cons='none', pen='none', evalmon=None, genmon=None),
            dict(bounds='box', cons='none', pen='none', evalmon='Monitor', genmon=None),
            dict(bounds='tight', cons='clamp', pen='none', evalmon='Monitor', genmon='Monitor'),
            dict(bounds=None, cons='pin0', pen='quad_ineq', evalmon=None, genmon='Monitor'),
            dict(bounds='box', cons='none', pen='lin_eq', evalmon='Monitor', genmon='Logging')]


def gen_units(tier, seed):
    costs = [None] if tier == 'quick' else ['rosen', 'absum', 'tilted']     # quick: one cost per setting, alternating
    dims = [2] if tier == 'quick' else [2, 3]
    seeds = [seed * 1000003 + 6] if tier == 'quick' else [seed * 1000003 + 6 + i for i in range(2)]
    paths = [('SaveSolver', None), ('dill', None), ('periodic', 1), ('periodic', 2), ('periodic', 3), ('independence', None)]
    for kind, (si, st), cost, ndim, sd, (path, freq) in itertools.product(SOLVERS, enumerate(SETTINGS), costs, dims, seeds, paths):
        sc = dict(st, solver=kind, setting=si, cost=cost or ['rosen', 'absum'][si % 2], ndim=ndim, seed=sd, path=path, freq=freq)
        if kind.startswith('DE'):
            sc['strategy'] = ['Best1Bin', 'Rand1Bin', 'Best1Exp', 'RandToBest1Exp', 'Best2Bin'][(si + ndim + sd) % 5]
        if path in ('SaveSolver', 'periodic') and si % 2 == 1:
            # non-default sticky options handed to every Step of the reference run, never to the restored solver
            if kind == 'NM':
                sc['opts'] = [{'adaptive': True}, {'radius': 0.2}][(si // 2) % 2]
            elif kind == 'Powell':
                sc['opts'] = [{'xtol': 1e-2}, {'imax': 20}][(si // 2) % 2]
            elif kind in ('DE1', 'DE2'):
                sc['opts'] = [{'CrossProbability': 0.5}, {'ScalingFactor': 0.6}][(si // 2) % 2]
        yield sc
    for i, (kind, nested, freq) in enumerate(itertools.product(['lattice', 'buckshot'], ['NelderMeadSimplexSolver', 'PowellDirectionalSolver'],
                                                                [None, 1] if tier == 'quick' else [None, 1, 3])):
        yield dict(path='ensemble-dump', solver=kind, kind=kind, nested=nested, freq=freq, ndim=2, cost=['rosen', 'absum'][i % 2],
                   seed=seed * 31 + i, setting='ensemble', bounds='box')


def _ensemble_dump(sc, files):
    """an ensemble run to completion with a registered restart file: the file it leaves behind (forced dump at the end of
    Solve) restores to the solver as Solve left it -- same best, same counters, same monitors -- without continuing it"""
    import mystic.solvers as ms
    from mystic.termination import VTR, ChangeOverGeneration
    seed_all(sc['seed'])
    _COST[0] = sc['cost']
    N[0] = 0
    n = sc['ndim']
    s = ms.LatticeSolver(n, nbins=(2,) + (1,) * (n - 1)) if sc['kind'] == 'lattice' else ms.BuckshotSolver(n, npts=3)
    s.SetNestedSolver(getattr(ms, sc['nested']))
    s.SetStrictRanges([-2.0] * n, [3.0] * n)
    s.SetTermination(ChangeOverGeneration(1e-4, 5))
    s.SetEvaluationLimits(generations=40)
    fn = _tmp(files, '.pkl')
    os.remove(fn)
    s.SetSaveFrequency(sc['freq'], fn)
    s.SetObjective(gcost)
    s.Solve()
    viol = []
    if not os.path.exists(fn):
        return {'violations': [('ensemble-leaves-a-restart-file', 'no file written by Solve with SetSaveFrequency(%r, file)' % (sc['freq'],), 0)],
                'cases': [(0, 0, True)], 'dumps': []}
    r = ms.LoadSolver(fn)
    a, b = snap(r), snap(s)
    d = [k for k in diff(a, b) if k in ('bestSolution', 'bestEnergy', 'generations', 'evaluations', 'energy_history', 'solution_history',
                                        'population', 'popEnergy', '_stepmon', '_evalmon', '._bestEnergy', '._total_evals')]
    if d:
        viol.append(('restart-file-of-a-finished-ensemble-holds-its-final-state', _show(a, b, d), 0))
    return {'violations': viol, 'cases': [(0, 1, bool(viol))], 'dumps': [0]}


def _work(sc):
    if sc.get('path') == 'ensemble-dump':
        files = []
        try:
            with contextlib.redirect_stdout(io.StringIO()):
                return {'sc': sc, 'r': _ensemble_dump(sc, files)}
        except Exception as e:      # noqa -- harness / scenario failure is not a violation of C06
            return {'sc': sc, 'r': {'violations': [], 'cases': [], 'dumps': [], 'aborted': '%s: %s' % (type(e).__name__, e)}}
        finally:
            for name in files:
                if os.path.exists(name):
                    os.remove(name)
    return {'sc': sc, 'r': run_unit(sc)}


def run(tier='quick', seed=0):
    units = list(gen_units(tier, seed))
    res = Result(rule='solver x setting (bounds none/box/tight, constraints, penalties, evaluation/generation monitors incl. '
                      'LoggingMonitor, DE strategy) x path (SaveSolver->LoadSolver, dill.dumps->loads, periodic '
                      'SetSaveFrequency 1/2/3 dump->LoadSolver, independence of deepcopy/dill/LoadSolver copies) x EVERY '
                      'boundary k = 0..11 (generation <= 10) of a %d-step reference run; generator states of the boundary are '
                      'reinstated; full state (public attributes, monitors, every numeric __dict__ entry) compared after every '
                      'further step; one case = one (unit, boundary); non-trivial = continued >= 1 step; plus ensembles (lattice / '
                      'buckshot over NM / Powell) run to completion with a registered restart file: LoadSolver(file) equals the '
                      'finished solver' % T,
                 bound='%d units x <= 12 boundaries, %d-step runs, dims %s' % (len(units), T, '2' if tier == 'quick' else '2-3'))
    for out in pmap(_work, units):
        sc, r = out['sc'], out['r']
        fam = '%s/%s' % (sc['path'], sc['solver'])
        for (k, more, bad) in r['cases']:
            res.case(repr((sc['solver'], sc['setting'], sc['path'], sc['freq'], sc['cost'], sc['ndim'], sc['seed'], k)), nontrivial=more >= 1,
                     sample={'solver': sc['solver'], 'setting': sc['setting'], 'path': sc['path'], 'k': k, 'continued': more})
        for clause, detail, k in r['violations']:
            res.violation('%s/%s/%s' % (P, fam, clause), detail, jsonable(dict(sc, k=k)))
    res.extra['exhaustive'] = False
    res.extra['harness_errors_count'] = 0
    return res.out()


def replay(inp):
    if inp.get('path') == 'ensemble-dump':
        return not _work(inp)['r']['violations']
    return not run_unit(inp)['violations']
