"""C10 bounded layer: termination conditions mean what they say, alone and in combination.

families
  prim/<Name>   every built-in primitive x parameter grid x random fake solvers; oracle = the documented inequality of
                DESIGN.md Appendix A.1 written out here with explicit index arithmetic (never calls mystic)
  trees         ALL And/Or/When trees of depth <= 3 over three leaves x all 8 truth assignments (x 2 leaf sets);
                oracle = a recursive truth/member/message model of the tree
  roundtrip     type(c)(**state(c)) behaves identically on random fake solvers; state(compound) == the leaves' kwds
"""
import math
import time
import random
import itertools
from .common import Result, pmap, jsonable, np

INF = float('inf')
F64 = np.float64
TOLS = [0, 0.0, 1e-6, 0.25, 0.5, 1, 2.0, F64(0.25)]
TOLS4 = [0, 1e-6, 0.5, F64(2.0)]
GENS = [0, None, 1, 2, 3, 5, 30, 2.9]          # 30 > every generated history length below 30; 2.9 -> int() = 2
_ENV = {'np': np, 'inf': INF, 'nan': float('nan'), 'array': np.array, 'float64': np.float64}


class Fake(object):
    pass


def mk(d):
    s = Fake()
    s.__dict__.update(d)
    return s


def _grid(**axes):
    keys = list(axes)
    return [dict(zip(keys, v)) for v in itertools.product(*[axes[k] for k in keys])]


GRIDS = {
    'VTR': _grid(tolerance=TOLS, target=[0.0, 1.0, -0.5, F64(0.25)]),
    'ChangeOverGeneration': _grid(tolerance=TOLS, generations=GENS),
    'NormalizedChangeOverGeneration': _grid(tolerance=TOLS, generations=GENS),
    'NormalizedCostTarget': _grid(fval=[None, 0.0, 1.0, -2.0], tolerance=TOLS, generations=GENS),
    'VTRChangeOverGeneration': _grid(ftol=TOLS4, gtol=TOLS4, generations=GENS, target=[0.0, 1.0]),
    'CandidateRelativeTolerance': _grid(xtol=TOLS, ftol=TOLS),
    'PopulationSpread': _grid(tolerance=TOLS),
    'SolutionImprovement': _grid(tolerance=TOLS + [1.5, 3.0]),
    'EvaluationLimits': _grid(generations=[None, 0, 1, 5, 100], evaluations=[None, 0, 1, 10, 1000]),
    'SolverInterrupt': [{}],
    'GradientNormTolerance': _grid(tolerance=TOLS, norm=[INF, 1, 2]),
    'TimeLimits': _grid(seconds=[0, 1e-9, 1e9, 86400], system=[None, True, False]),
}
PRIMS = list(GRIDS)


# ----------------------------------------------------------------------------- independent oracle (Appendix A.1)
def _G(g):
    return 0 if g is None else int(g)


def _back(H, G):
    """Python's H[-G] with explicit index arithmetic: H[L-G] for G>0, H[0] for G==0"""
    return H[len(H) - G] if G > 0 else H[0]


def _nochange(H, G, tol):
    if not len(H) > G:
        return False                       # window longer than (or equal to) the history => not satisfied
    a, b = _back(H, G), H[len(H) - 1]
    return (a - b <= tol) or (a == b)      # a tie counts as zero change (decides inf plateaus)


def spec(name, kw, d):
    """truth of the documented inequality; returns None where the documented definition is undefined (nan)"""
    H = d.get('energy_history')
    if name in ('VTR', 'ChangeOverGeneration', 'NormalizedChangeOverGeneration', 'NormalizedCostTarget',
                'VTRChangeOverGeneration'):
        L = len(H)
        if L == 0:
            return False
        last = H[L - 1]
    if name == 'VTR':
        return abs(last - kw['target']) <= kw['tolerance']
    if name == 'ChangeOverGeneration':
        return _nochange(H, _G(kw['generations']), kw['tolerance'])
    if name == 'NormalizedChangeOverGeneration':
        G = _G(kw['generations'])
        if not L > G:
            return False
        a = _back(H, G)
        return a == last or 2.0 * (a - last) <= kw['tolerance'] * (abs(a) + abs(last)) + 1e-20
    if name == 'NormalizedCostTarget':
        G = _G(kw['generations'])
        if kw['fval'] is None:
            return True if G == 0 else _nochange(H, G, 0)
        return abs(last - kw['fval']) <= abs(kw['tolerance'] * kw['fval'])
    if name == 'VTRChangeOverGeneration':
        return _nochange(H, _G(kw['generations']), kw['gtol']) or abs(last - kw['target']) <= kw['ftol']
    if name == 'CandidateRelativeTolerance':
        sim, f = d['population'], d['popEnergy']
        dx = [abs(sim[j][k] - sim[0][k]) for j in range(1, len(sim)) for k in range(len(sim[0]))]
        df = [abs(f[0] - f[j]) for j in range(1, len(f))]
        if any(math.isnan(v) for v in dx + df):
            return None
        return max(dx) <= kw['xtol'] and max(df) <= kw['ftol']
    if name == 'PopulationSpread':
        sim = d['population']
        return all(abs(sim[j][k] - sim[0][k]) <= abs(kw['tolerance'] * sim[0][k])
                   for j in range(len(sim)) for k in range(len(sim[0])))
    if name == 'SolutionImprovement':
        best, trial = d['bestSolution'], d['trialSolution']
        rows = trial if hasattr(trial[0], '__len__') else [trial]
        sums = []
        for r in rows:
            t = 0.0
            for k in range(len(best)):
                t = t + abs(best[k] - r[k])
            sums.append(t)
        return max(sums) <= kw['tolerance']
    if name == 'EvaluationLimits':
        g, e = kw['generations'], kw['evaluations']
        return (e is not None and d['_fcalls'][0] >= e) or (g is not None and d['generations'] >= g)
    if name == 'SolverInterrupt':
        return bool(d['_EARLYEXIT'])
    if name == 'GradientNormTolerance':
        g = [abs(float(v)) for v in d['gradient'][len(d['gradient']) - 1]]
        p = kw['norm']
        if p == INF:
            n = max(g)
        elif p == 1:
            n = math.fsum(g)
        else:
            n = math.sqrt(math.fsum(v * v for v in g))
            if n != kw['tolerance'] and abs(n - kw['tolerance']) <= 1e-9 * max(1.0, n):
                return None                # "to rounding" band of the p-norm
        return n <= kw['tolerance']
    raise ValueError(name)


# ----------------------------------------------------------------------------- fake solvers
def _val(rng, mode):
    if mode == 'grid':
        return rng.randrange(-8, 13) * 0.25
    if mode == 'float':
        return rng.choice([rng.uniform(-3, 3), rng.gauss(0, 1) * 10 ** rng.randrange(-8, 4)])
    return float(rng.randrange(0, 3))


def gen_history(rng):
    L = rng.choice([0, 0, 1, 1, 2, 3, 4, 5, 6, 8, 12, 20, 29])
    mode = rng.choice(['grid', 'float', 'small', 'descend', 'plateau'])
    if mode == 'descend':
        v, H = _val(rng, 'grid') + 5, []
        for _ in range(L):
            v -= rng.choice([0, 0, 0.25, 1e-6, 1e-7, 0.5, 1.0])
            H.append(v)
    elif mode == 'plateau':
        H = [_val(rng, 'grid')] * L
        if L > 2 and rng.random() < 0.5:
            k = rng.randrange(1, L)
            H = [h + 1.0 for h in H[:k]] + H[k:]
    else:
        H = [_val(rng, mode) for _ in range(L)]
    r = rng.random()
    if L and r < 0.2:                                # +inf prefix (typical for penalised starts)
        k = rng.randrange(1, L + 1)
        H = [INF] * k + H[k:]
    elif L and r < 0.3:                              # +inf anywhere
        for _ in range(rng.randrange(1, 3)):
            H[rng.randrange(L)] = INF
    if rng.random() < 0.2:
        H = [F64(h) for h in H]
    return H


def gen_solver(rng, name):
    d = {}
    if name in ('VTR', 'ChangeOverGeneration', 'NormalizedChangeOverGeneration', 'NormalizedCostTarget',
                'VTRChangeOverGeneration'):
        d['energy_history'] = gen_history(rng)
    elif name in ('CandidateRelativeTolerance', 'PopulationSpread'):
        npop = rng.choice([2, 2, 3, 4, 6]) if name[0] == 'C' else rng.choice([1, 2, 3, 5])
        nd = rng.choice([1, 2, 3, 4])
        mode = rng.choice(['grid', 'float', 'small'])
        base = [_val(rng, mode) for _ in range(nd)]
        spread = rng.choice([0.0, 0.0, 1e-6, 0.25, 0.5, 1.0, 3.0])
        pop = [[b + spread * rng.choice([-1, 0, 0, 1]) * rng.choice([1, 0.5, 1.0000001]) for b in base]
               for _ in range(npop)]
        if rng.random() < 0.3:
            pop[0] = list(base)
        d['population'] = pop
        f0 = _val(rng, mode)
        fs = [f0] + [f0 + spread * rng.choice([0, 0, 1, 0.5, 2]) for _ in range(npop - 1)]
        if rng.random() < 0.2:
            fs[rng.randrange(npop)] = INF
        if rng.random() < 0.05:
            fs = [INF] * npop                       # all-inf energies: |inf-inf| is nan => definition undefined
        d['popEnergy'] = fs
        if rng.random() < 0.3:
            d['population'] = np.array(pop)
            d['popEnergy'] = np.array(fs)
    elif name == 'SolutionImprovement':
        nd = rng.choice([1, 2, 3, 5, 7])
        mode = rng.choice(['grid', 'grid', 'float'])
        best = [_val(rng, mode) for _ in range(nd)]
        step = rng.choice([0.0, 0.125, 0.25, 0.5, 1.0])

        def row():
            return [b + step * rng.choice([-1, 0, 1]) for b in best]
        d['bestSolution'] = best if rng.random() < 0.5 else np.array(best)
        d['trialSolution'] = row() if rng.random() < 0.6 else [row() for _ in range(rng.choice([1, 2, 4]))]
    elif name == 'EvaluationLimits':
        d['generations'] = rng.choice([0, 1, 4, 5, 6, 99, 100, 101])
        d['_fcalls'] = [rng.choice([0, 1, 9, 10, 11, 999, 1000, 1001])]
    elif name == 'SolverInterrupt':
        d['_EARLYEXIT'] = rng.choice([False, True, 0, 1, None])
    elif name == 'GradientNormTolerance':
        nd = rng.choice([1, 2, 3, 5])
        scale = rng.choice([0.0, 1e-6, 0.125, 0.25, 0.5, 1.0])
        d['gradient'] = [[scale * rng.choice([-2, -1, 0, 1, 2]) for _ in range(nd)]
                         for _ in range(rng.choice([1, 2, 3]))]
        if rng.random() < 0.3 and nd == 2:
            d['gradient'][-1] = [3 * scale, -4 * scale]
    elif name == 'TimeLimits':
        d['energy_history'] = gen_history(rng)
    return d


def factory(name):
    import mystic.termination as mt
    return getattr(mt, name)


def srepr(d):
    return repr(d)


def sload(s):
    return eval(s, dict(_ENV))


# ----------------------------------------------------------------------------- family: primitives
def check_prim(res, name, kw, cond, d, expected=None):
    """one (condition, fake solver) evaluation: truthiness and info message"""
    key = 'C10/bounded/prim/%s' % name
    if expected is None:
        expected = spec(name, kw, d)
    if expected is None:
        res.extra['undefined'] = res.extra.get('undefined', 0) + 1
        return True
    expected = bool(expected)
    s = mk(d)
    got = cond(s)
    msg = cond(s, True)
    H = d.get('energy_history')
    cat = ''
    if H is not None and 'generations' in kw:
        G = _G(kw['generations'])
        cat = 'L0' if not len(H) else ('short' if len(H) <= G else ('inf' if INF in (H[-1], _back(H, G)) else
                                                                   ('tie' if H[-1] == _back(H, G) else 'gen')))
    res.case('%s|%s|%s|%s' % (key, srepr(kw), cat, expected), nontrivial=(H is None or len(H) > 0),
             sample={'prim': name, 'kw': srepr(kw), 'solver': srepr(d), 'expected': expected})
    inp = {'family': 'prim', 'prim': name, 'kw': srepr(kw), 'solver': srepr(d)}
    ok = True
    if bool(got) != expected:
        res.violation(key + '/truth', 'got %r, documented inequality gives %r' % (got, expected), inp)
        ok = False
    want = cond.__doc__ if expected else ''
    if not (isinstance(msg, str) and msg == want) or not cond.__doc__:
        res.violation(key + '/info', 'info=True gave %r, expected %r' % (msg, want), inp)
        ok = False
    return ok


def _wait(system):
    t0 = time.time()
    if system is False:
        p0 = time.process_time()
        while time.process_time() - p0 < 2e-4 and time.time() - t0 < 0.5:
            pass
    else:
        time.sleep(0.001)


def prim_job(job):
    name, seed, n = job
    rng = random.Random('%s/%s' % (name, seed))
    res = Result('', '')
    solvers = [gen_solver(rng, name) for _ in range(n)]
    F = factory(name)
    ndiv = 0
    for kw in GRIDS[name]:
        cond = F(**kw)
        if name == 'TimeLimits':
            _wait(kw['system'])
            expected = kw['seconds'] < 1.0      # elapsed is > 1e-4 s and far below a day
            for d in solvers[:20]:
                check_prim(res, name, kw, cond, d, expected)
            continue
        for d in solvers:
            check_prim(res, name, kw, cond, d)
            if name == 'NormalizedChangeOverGeneration':                 # informational: literal division form
                H, G = d['energy_history'], _G(kw['generations'])
                if len(H) > G:
                    a, b = float(_back(H, G)), float(H[-1])
                    den = 0.5 * (abs(a) + abs(b))
                    q = (a - b) / den if den else float('nan')
                    if a != b and (q <= kw['tolerance']) != spec(name, kw, d):
                        ndiv += 1
    out = res.part()
    out['extra'] = dict(res.extra, ncog_division_form_differs=ndiv)
    return out


# ----------------------------------------------------------------------------- family: trees
def leafset(i):
    """three leaves with independent, known truth; returns (names, kwds) and a solver builder"""
    if i == 0:
        defs = [('VTR', {'tolerance': 0.005, 'target': 0.0}),
                ('ChangeOverGeneration', {'tolerance': 1e-6, 'generations': 2}),
                ('EvaluationLimits', {'generations': 5, 'evaluations': None})]

        def build(t):
            last = 0.0 if t[0] else 1.0
            return {'energy_history': [9.0, last if t[1] else last + 1.0, last],
                    'generations': 7 if t[2] else 1, '_fcalls': [3]}
    else:
        defs = [('SolverInterrupt', {}),
                ('NormalizedCostTarget', {'fval': 1.0, 'tolerance': 0.1, 'generations': 0}),
                ('SolutionImprovement', {'tolerance': 0.5})]

        def build(t):
            return {'_EARLYEXIT': bool(t[0]), 'energy_history': [INF, 1.05 if t[1] else 2.0],
                    'bestSolution': [0.0, 0.0], 'trialSolution': [0.25, 0.0] if t[2] else [1.0, 1.0]}
    return defs, build


def all_trees():
    """structures: int leaf | ('When', t) | ('And'|'Or', t1..tk), k in 1..3 distinct children of lower depth"""
    level = [0, 1, 2]
    for _ in range(2):
        new = list(level)
        new += [('When', t) for t in level]
        for k in (1, 2, 3):
            for combo in itertools.combinations(level, k):
                new += [('And',) + combo, ('Or',) + combo]
        level = list(dict.fromkeys(new))
    return level


_DEEP = {}


def deep_trees(n=120):
    """seeded random trees of depth 3..5 built from the exhaustive ones: siblings of the same kind that differ only in
    their nesting (And(a,b) next to And(Or(a,b)), When(c) inside And/Or, ...), which no depth-2 tree contains"""
    import os
    import random
    seed = int(os.environ.get('VERIF_SEED', '0') or 0)
    if seed in _DEEP:
        return _DEEP[seed]
    rng = random.Random(7331 + seed)
    base = [t for t in all_trees() if not isinstance(t, int)]
    pool = list(base)
    out = []
    # systematic part: a compound next to the same-kind compound of one of its re-nestings
    for kind in ('And', 'Or'):
        for inner in ('And', 'Or'):
            for a, b in ((0, 1), (1, 2), (0, 2)):
                flat = (kind, a, b)
                nested = (kind, (inner, a, b))
                for top in ('And', 'Or'):
                    out.append((top, nested, flat))
                    out.append((top, flat, (kind, ('When', a), b)))
    while len(out) < n:
        kind = rng.choice(['And', 'Or', 'When'])
        k = 1 if kind == 'When' else rng.choice([1, 2, 2, 3])
        kids = []
        while len(kids) < k:
            c = rng.choice(pool) if rng.random() < 0.8 else rng.choice([0, 1, 2])
            if c not in kids:
                kids.append(c)
        t = (kind,) + tuple(kids)
        if t not in out and t not in base:
            out.append(t)
            pool.append(t)
    _DEEP[seed] = out
    return out


def subtrees(t):
    return [t] if isinstance(t, int) else [t] + [n for k in t[1:] for n in subtrees(k)]


def flaws(t):
    """structural sub-case tags: a compound whose only member is a compound; two tuple-equal compound members"""
    if isinstance(t, int):
        return set()
    out = set()
    kids = t[1:]
    if len(kids) == 1 and not isinstance(kids[0], int):
        out.add('single-compound-member')
    for a, b in itertools.combinations(kids, 2):
        if not isinstance(a, int) and not isinstance(b, int) and a[1:] == b[1:]:
            out.add('equal-members')
    for k in kids:
        out |= flaws(k)
    return out


def tree_job(job):
    ls, truth = job[:2]
    only = job[2] if len(job) > 2 else None
    import mystic.termination as mt
    defs, build = leafset(ls)
    d = build(truth)
    leaves = [factory(n)(**kw) for n, kw in defs]
    for (n, kw), t in zip(defs, truth):
        assert spec(n, kw, d) == bool(t), 'harness: leaf truth'
    s = mk(d)
    res = Result('', '')
    cache = {}

    def obj(t):
        if isinstance(t, int):
            return leaves[t]
        if t not in cache:
            cache[t] = getattr(mt, t[0])(*[obj(k) for k in t[1:]])
        return cache[t]

    def model(t):
        """(satisfied, set of message parts)"""
        if isinstance(t, int):
            return bool(truth[t]), ({leaves[t].__doc__} if truth[t] else set())
        kids = [model(k) for k in t[1:]]
        if t[0] == 'Or':
            return any(k[0] for k in kids), set().union(*[k[1] for k in kids if k[0]])
        sat = all(k[0] for k in kids)
        return sat, (set().union(*[k[1] for k in kids]) if sat else set())

    for t in ([only] if only is not None else all_trees() + deep_trees()):
        if isinstance(t, int):
            continue
        c = obj(t)
        sat, parts = model(t)
        members = [obj(k) for k in t[1:]]
        msat = [model(k)[0] for k in t[1:]]
        if t[0] == 'Or':
            sel = [m for m, ok in zip(members, msat) if ok]
        else:
            sel = list(members) if sat else []
        rest = [m for m in members if not any(m is x for x in sel)]
        fl = flaws(t)
        tag = ('#' + '+'.join(sorted(fl))) if fl else ''
        key = 'C10/bounded/trees/'
        inp = {'family': 'trees', 'leafset': ls, 'truth': list(truth), 'tree': jsonable(t)}
        res.case('%s%r|%r' % (key, t, truth), nontrivial=True, sample=inp)
        got = c(s)
        if bool(got) != sat:
            res.violation(key + t[0] + '-truth' + tag, '%r on leaf truth %r gave %r, expected %r' % (t, truth, got, sat), inp)
        got = c(s, 'self')
        oksat = {id(obj(n)) for n in subtrees(t) if model(n)[0]}
        if not all(id(g) in oksat for g in got) or bool(got) != sat:    # the property's wording
            res.violation(key + t[0] + '-self-only-satisfied' + tag, "%r truth %r: info='self' gave %r which is not a "
                          'tuple of satisfied conditions of the tree (non-empty iff satisfied)' % (t, truth, got), inp)
        # Appendix A.1: exactly the satisfied members.  Not demanded when the only member is a compound: the
        # constructors unwrap a one-element tuple argument ("for pickling"), so When(When(c)) names c itself --
        # still a satisfied condition of the tree, which is all the property asks (checked just above).
        exact = 'single-compound-member' not in fl
        if exact and sorted(map(id, got)) != sorted(map(id, sel)):
            res.violation(key + t[0] + '-self-exact' + tag, "%r truth %r: info='self' gave %d conditions %r, expected "
                          'the %d satisfied members' % (t, truth, len(got), got, len(sel)), inp)
        got = c(s, 'not')
        if exact and sorted(map(id, got)) != sorted(map(id, rest)):
            res.violation(key + t[0] + '-not' + tag, "%r truth %r: info='not' gave %r, expected %d members"
                          % (t, truth, got, len(rest)), inp)
        got = c(s, True)
        gparts = set(got.split('; ')) - {''} if isinstance(got, str) else None
        if gparts != parts or bool(got) != sat:
            res.violation(key + t[0] + '-message' + tag, '%r truth %r: message %r, expected parts %r'
                          % (t, truth, got, sorted(parts)), inp)
    return res.part()


# ----------------------------------------------------------------------------- family: state/type round trip
def _same(a, b):
    return type(a) is type(b) and a == b


def roundtrip_job(job):
    name, seed, n = job[:3]
    only = job[3] if len(job) > 3 else None
    import mystic.termination as mt
    rng = random.Random('rt/%s/%s' % (name, seed))
    res = Result('', '')
    solvers = [gen_solver(rng, name) for _ in range(n)]
    key = 'C10/bounded/roundtrip/%s' % name
    for kw in GRIDS[name]:
        if only is not None and srepr(kw) != only:
            continue
        c = factory(name)(**kw)
        inp = {'family': 'roundtrip', 'prim': name, 'kw': srepr(kw), 'solvers_seed': [name, seed, n]}
        res.case('%s|%s' % (key, srepr(kw)), True, sample=inp)
        try:
            st = mt.state(c)
        except Exception as e:       # the library, asked for the reported state of one of its own conditions, raised
            res.violation(key + '/state', 'state(condition) raised %r for kwds %r' % (e, kw), inp)
            continue
        if list(st) != [c.__doc__] or set(st[c.__doc__]) != set(kw) or \
                any(not (st[c.__doc__][k] == v or (v is None and st[c.__doc__][k] is None)) for k, v in kw.items()):
            res.violation(key + '/state', 'state %r for kwds %r' % (st, kw), inp)
            continue
        try:
            c2 = mt.type(c)(**list(st.values())[0])
        except Exception as e:
            res.violation(key + '/rebuild', 'type(c)(**state) raised %r' % e, inp)
            continue
        if name == 'TimeLimits':
            _wait(kw['system'])
        for d in solvers:
            if name != 'TimeLimits' and spec(name, kw, d) is None:
                continue
            s = mk(d)
            r1, r2, m1, m2 = c(s), c2(s), c(s, True), c2(s, True)
            if not (_same(r1, r2) and _same(m1, m2)):
                res.violation(key + '/identical', 'original %r/%r rebuilt %r/%r' % (r1, m1, r2, m2),
                              dict(inp, solver=srepr(d)))
                break
    return res.part()


def compound_state_job(job):
    ls, only = job
    import mystic.termination as mt
    defs, build = leafset(ls)
    leaves = [factory(n)(**kw) for n, kw in defs]
    res = Result('', '')

    def obj(t):
        return leaves[t] if isinstance(t, int) else getattr(mt, t[0])(*[obj(k) for k in t[1:]])

    def used(t):
        return {t} if isinstance(t, int) else set().union(*[used(k) for k in t[1:]])
    for t in ([only] if only is not None else all_trees()):
        if isinstance(t, int):
            continue
        want = {leaves[i].__doc__: defs[i][1] for i in used(t)}
        try:
            got = mt.state(obj(t))
        except Exception as e:
            got = 'raised %r' % (e,)
        res.case('C10/bounded/roundtrip/compound|%r' % (t,), True)
        if got != want:
            res.violation('C10/bounded/roundtrip/compound-state', 'state(%r) = %r, expected %r' % (t, got, want),
                          {'family': 'compound_state', 'leafset': ls, 'tree': jsonable(t)})
    return res.part()


# ----------------------------------------------------------------------------- driver
def _totuple(t):
    return tuple(_totuple(k) for k in t) if isinstance(t, list) else t


def run(tier='quick', seed=0):
    nh = 200 if tier == 'quick' else 5000
    nrt = 50 if tier == 'quick' else 800
    res = Result(rule='prim: each primitive x full parameter grid (tolerances incl. 0 and numpy scalars; windows 0, None, '
                 '1..5, 30 > len(history), 2.9) x %d seeded fake solvers (histories of length 0..29: grid/float/plateau/'
                 'descending/+inf prefix/+inf anywhere); distinct = (primitive, kwds, window-vs-length class, expected). '
                 'trees: every And/Or/When tree of depth <= 3 over 3 leaves (members = 1..3 distinct lower trees) plus 120 deeper trees '
                 '(depth 3..5: same-kind siblings that differ only in nesting, seeded random compositions) x 8 leaf '
                 'truth assignments x 2 leaf sets x 4 info modes. roundtrip: every primitive x grid rebuilt from state/type '
                 'on %d fake solvers; state() of every tree.' % (nh, nrt),
                 bound='histories <= 29 entries, populations <= 6x4, trees depth <= 3 over 3 leaves (%d trees)'
                 % len(all_trees()))
    jobs = [('prim', (n, seed, nh)) for n in PRIMS]
    jobs += [('tree', (ls, t)) for ls in (0, 1) for t in itertools.product((0, 1), repeat=3)]
    jobs += [('rt', (n, seed, nrt)) for n in PRIMS] + [('cs', (ls, None)) for ls in (0, 1)]
    for part in pmap(_dispatch, jobs):
        res.merge(part)
        for k, v in part.get('extra', {}).items():
            res.extra[k] = res.extra.get(k, 0) + v
    res.extra['trees_exhaustive'] = True
    return res.out()


def _dispatch(job):
    kind, arg = job
    return {'prim': prim_job, 'tree': tree_job, 'rt': roundtrip_job, 'cs': compound_state_job}[kind](arg)


def replay(inp):
    fam = inp['family']
    if fam == 'prim':
        kw, d, name = sload(inp['kw']), sload(inp['solver']), inp['prim']
        r = Result('', '')
        expected = None
        if name == 'TimeLimits':
            _wait(kw['system'])
            expected = kw['seconds'] < 1.0
        check_prim(r, name, kw, factory(name)(**kw), d, expected)
        return not r.violations
    if fam == 'trees':
        return not tree_job((inp['leafset'], tuple(inp['truth']), _totuple(inp['tree'])))['violations']
    if fam == 'roundtrip':
        return not roundtrip_job(tuple(inp['solvers_seed']) + (inp['kw'],))['violations']
    if fam == 'compound_state':
        return not compound_state_job((inp['leafset'], _totuple(inp['tree'])))['violations']
    raise ValueError(fam)
