"""C19 bounded layer: mystic.math.discrete product measures / scenarios.  Exhaustive over all shapes with <= 3 factor
measures of <= 3 points each (39 shapes), with seeded random weights (incl. exact zeros and whole zero-mass factors),
positions and attached values.  Expected values come from explicit loops over the weighted points built HERE (first
factor varies fastest, as documented in measures._pack); structure (positions, parameter vectors, supports, zero
weights) is compared exactly, sums and products to 1e-9 relative."""
import copy
import math
import random
import itertools
from .common import *       # noqa

P = 'C19/bounded/'
SHAPES = [s for k in (1, 2, 3) for s in itertools.product((1, 2, 3), repeat=k)]


def close(a, b):
    return feq(a, b, 1e-9, 1e-11) and ((float(a) == 0.0) == (float(b) == 0.0) or abs(float(a) - float(b)) < 1e-11)


class Raised(Exception):
    """an exception that came out of mystic; every call made here is defined, so it is reported as a violation"""


def call(fam, f, *a, **k):
    try:
        return f(*a, **k)
    except Exception as e:      # noqa
        raise Raised(fam, '%s: %s' % (type(e).__name__, e))


def points(shape, pos, wts):
    """own weighted points of the product: (position tuple, weight), first factor varying fastest"""
    out = []
    for t in range(math.prod(shape)):
        idx = []
        for n in shape:
            idx.append(t % n)
            t //= n
        out.append((tuple(pos[i][j] for i, j in enumerate(idx)), math.prod(wts[i][j] for i, j in enumerate(idx))))
    return out


def params_of(pos, wts):
    return [v for w, x in zip(wts, pos) for v in list(w) + list(x)]


def gen_case(shape, rng):
    wts = [[rng.choice([0.0, rng.uniform(0.05, 1.5), rng.uniform(0.05, 1.5), 0.5]) for _ in range(n)] for n in shape]
    if rng.random() < 0.1:
        i = rng.randrange(len(shape))
        wts[i] = [0.0] * shape[i]           # a zero-mass factor
    pos = [[rng.choice([float(rng.randint(-4, 6)), rng.uniform(-4, 6)]) for _ in range(n)] for n in shape]
    N = math.prod(shape)
    off = 0.0
    if random.Random(repr((shape, wts[0]))).random() < 0.12:
        # positions of magnitude 1e6 with a spread of order one (own generator): the statistics are sums of small
        # deviations from a large mean
        off = 1e6
        pos = [[off + float(round(v * 8) / 8) for v in row] for row in pos]
    return dict(shape=list(shape), wts=wts, pos=pos, offset=off, values=[rng.uniform(-10, 10) for _ in range(N)],
                new=[rng.uniform(0.1, 5) for _ in range(2 * sum(shape))], newvals=[rng.uniform(20, 30) for _ in range(rng.randint(0, N))],
                prefix=rng.randint(1, len(shape)), q=[rng.uniform(-2, 2) for _ in range(4)],
                targets=[rng.choice([0.5, -2.0, 3.25]), rng.choice([0.5, 2.0, 7.0]), rng.choice([0.25, 1.0, 4.5])])


def check(c):
    from mystic.math import discrete as md
    from mystic.math import measures as mm
    shape, wts, pos, vals = tuple(c['shape']), c['wts'], c['pos'], c['values']
    bad = []
    add = lambda fam, cl, ok, detail: ok or bad.append((P + fam + '/' + cl, detail))    # noqa: E731
    pts = points(shape, pos, wts)
    X, Wt = [p for p, _ in pts], [w for _, w in pts]
    pm = call('compose', md.compose, pos, wts)
    same = lambda a: a.wts == wts and a.pos == pos                                     # noqa: E731
    # ---- product structure
    add('product', 'factors', list(pm.pts) == list(shape) and same(pm), 'pts %r wts %r pos %r' % (pm.pts, pm.wts, pm.pos))
    ppos = call('product', lambda: pm.positions)
    add('product', 'positions', ppos == X, 'positions %r, Cartesian product in documented order %r' % (ppos, X))
    got = [float(v) for v in call('product', lambda: pm.weights)]
    add('product', 'weights', len(got) == len(Wt) and all(close(g, w) for g, w in zip(got, Wt)),
        'weights %r, products of factor weights %r' % (got, Wt))
    masses = [math.fsum(w) for w in wts]
    add('product', 'mass', all(close(a, b) for a, b in zip(pm.mass, masses)) and close(math.fsum(got), math.prod(masses))
        and int(pm.npts) == len(X), 'mass %r (own %r), total %r vs product of masses %r, npts %r'
        % (pm.mass, masses, math.fsum(got), math.prod(masses), pm.npts))
    # ---- parameter-vector round trips
    par = params_of(pos, wts)
    flat = call('roundtrip', pm.flatten)
    add('roundtrip', 'flatten-order', flat == par and md.flatten(pm) == par, 'flatten %r, documented layout %r' % (flat, par))
    add('roundtrip', 'load', same(call('roundtrip', md.product_measure().load, flat, pm.pts)), 'load(flatten()) differs')
    uf = call('roundtrip', md.unflatten, flat, shape)
    add('roundtrip', 'unflatten', same(uf) and uf.flatten() == flat,
        'unflatten(flatten()) differs')
    sc = call('roundtrip', md.scenario, pm, list(vals))
    sflat = call('roundtrip', sc.flatten)
    s2 = call('roundtrip', md.scenario().load, sflat, sc.pts)
    add('roundtrip', 'scenario', same(sc) and sflat == par + vals and sc.flatten(all=False) == par and same(s2)
        and list(s2.values) == vals and s2.flatten() == sflat, 'scenario flatten %r -> load -> %r' % (sflat, s2.flatten()))
    # ---- compose / decompose, _pack / _unpack
    x2, w2 = call('compose', md.decompose, pm)
    add('compose', 'decompose', x2 == pos and w2 == wts, 'decompose(compose(x,w)) = %r, %r' % (x2, w2))
    add('compose', 'recompose', same(call('compose', lambda: md.compose(*md.decompose(pm)))), 'compose(*decompose(c)) differs')
    up = call('compose', lambda: mm._unpack(mm._pack(pos), shape))
    pu = call('compose', lambda: mm._pack(mm._unpack(X, shape)))
    add('compose', 'unpack-pack', up == pos, '_unpack(_pack(x)) = %r, x = %r' % (up, pos))
    add('compose', 'pack-unpack', pu == X, '_pack(_unpack(X)) = %r, X = %r' % (pu, X))
    # ---- update(): exactly the addressed weights / positions / values change
    new = c['new']
    nw, nx, k = [], [], 0
    for n in shape:
        nw.append(new[k:k + n]); nx.append(new[k + n:k + 2 * n]); k += 2 * n       # noqa: E702
    u = copy.deepcopy(pm)
    call('update', u.update, list(new))
    add('update', 'full', u.wts == nw and u.pos == nx and same(pm), 'update(%r) -> wts %r pos %r' % (new, u.wts, u.pos))
    j = c['prefix']
    u = copy.deepcopy(pm)
    call('update', u.update, list(new[:2 * sum(shape[:j])]))
    add('update', 'prefix', u.wts == nw[:j] + wts[j:] and u.pos == nx[:j] + pos[j:],
        'update with the parameters of the first %d measures -> wts %r pos %r' % (j, u.wts, u.pos))
    u, nv = copy.deepcopy(sc), c['newvals']
    call('update', u.update, list(new) + list(nv))
    add('update', 'scenario-values', u.wts == nw and u.pos == nx and list(u.values) == nv + vals[len(nv):] and
        list(sc.values) == vals, 'values %r + update tail %r -> %r' % (vals, nv, u.values))
    # ---- statistics as explicit sums over the weighted points
    q = c['q'] if not c.get('offset') else [1.0, 0.0, 0.0, 0.0]
    f = lambda x: q[0] * x[0] + q[1] * x[-1] ** 2 + q[2] * len(x) + q[3]      # noqa: E731
    big = bool(c.get('offset'))
    closev = (lambda a, b: feq(a, b, 1e-6, 1e-9)) if big else close            # noqa: E731
    # a value moved from ~1e6 to a target of order one carries the rounding of the 1e6-sized operands (1e6 * 2**-52 per op)
    closem = (lambda a, b: abs(float(a) - float(b)) <= 1e-8) if big else close  # noqa: E731
    tot = math.fsum(Wt)
    sup, sidx = call('stats', pm.support), call('stats', pm.support_index)
    add('stats', 'support', sup == [x for x, w in pts if w > 0] and sidx == [i for i, w in enumerate(Wt) if w > 0],
        'support %r / %r' % (sup, sidx))
    want = math.fsum(w for x, w in pts if f(x) <= 0.0)
    got = call('stats', pm.pof, f)
    add('stats', 'pof', close(got, want), 'pof %r, explicit sum %r' % (got, want))
    degenerate = tot <= 0
    if not degenerate:
        e = math.fsum(w * f(x) for x, w in pts) / tot
        v = math.fsum(w * (f(x) - e) ** 2 for x, w in pts) / tot
        ge, gv = call('stats', pm.expect, f), call('stats', pm.expect_var, f)
        add('stats', 'expect', close(ge, e), 'expect %r, explicit sum %r' % (ge, e))
        add('stats', 'expect_var', closev(gv, v), 'expect_var %r, explicit sum %r' % (gv, v))
    # ---- measure-level setters
    tm, tr, tv = c['targets']
    for i, (w, x) in enumerate(zip(wts, pos)):
        if math.fsum(w) <= 0:
            continue
        mean = lambda m: math.fsum(a * b for a, b in zip(m.positions, w)) / math.fsum(w)       # noqa: E731
        m = copy.deepcopy(pm[i])
        call('setters', setattr, m, 'center_mass', tm)
        add('setters', 'center_mass', closem(mean(m), tm) and m.weights == w, 'factor %d: mean %r after center_mass=%r' % (i, mean(m), tm))
        if max(x) - min(x) > 1e-3:
            m = copy.deepcopy(pm[i])
            call('setters', setattr, m, 'range', tr)
            add('setters', 'range', closem(max(m.positions) - min(m.positions), tr), 'factor %d: range %r after range=%r'
                % (i, max(m.positions) - min(m.positions), tr))
        m0 = math.fsum(a * b for a, b in zip(x, w)) / math.fsum(w)
        if math.fsum(b * (a - m0) ** 2 for a, b in zip(x, w)) / math.fsum(w) > 1e-6:
            m = copy.deepcopy(pm[i])
            call('setters', setattr, m, 'var', tv)
            got = math.fsum(b * (a - mean(m)) ** 2 for a, b in zip(m.positions, w)) / math.fsum(w)
            add('setters', 'var', closev(got, tv), 'factor %d: variance %r after var=%r' % (i, got, tv))
    if all(math.fsum(w) > 0 for w in wts):
        u = copy.deepcopy(pm)
        tgt = [tm + i for i in range(len(shape))]
        call('setters', setattr, u, 'center_mass', tgt)
        got = [math.fsum(a * b for a, b in zip(u.pos[i], wts[i])) / math.fsum(wts[i]) for i in range(len(shape))]
        add('setters', 'product.center_mass', all(closem(g, t) for g, t in zip(got, tgt)) and u.wts == wts,
            'center masses %r after center_mass=%r' % (got, tgt))
    return bad, degenerate


def check_case(c):
    try:
        return check(c)
    except Raised as e:
        return [(P + e.args[0] + '/raises', e.args[1])], False


def work(chunk):
    res = Result('', '')
    for c in chunk:
        viol, degenerate = check_case(c)
        zeros = sum(1 for w in c['wts'] for v in w if v == 0.0)
        res.case('%r|zeros=%d|prefix=%d|nv=%d' % (tuple(c['shape']), zeros, c['prefix'], len(c['newvals'])), not degenerate,
                 jsonable(c) if not degenerate else None)
        for k, d in viol:
            res.violation(k, d, jsonable(c))
    return res.part()


def run(tier='quick', seed=0):
    reps = 150 if tier == 'quick' else 4000
    rng = random.Random(seed)
    cases = [gen_case(s, rng) for s in SHAPES for _ in range(reps)]
    res = Result(rule='all %d shapes with <= 3 factor measures of <= 3 points (enumerated completely) x %d seeded fillings '
                 '(weights incl. exact zeros / zero-mass factors, positions, values, update vectors, test function, '
                 'targets); distinct = (shape, number of zero weights, update prefix, number of updated values); '
                 'non-trivial = total mass > 0' % (len(SHAPES), reps),
                 bound='shapes exhaustive up to 3x3x3; %d random fillings per shape' % reps)
    res.extra['exhaustive'] = True
    res.extra['exhaustive_over'] = 'the %d shapes (fillings are seeded random)' % len(SHAPES)
    random.Random(seed + 1).shuffle(cases)
    size = max(1, len(cases) // 64)
    for p in pmap(work, [cases[i:i + size] for i in range(0, len(cases), size)]):
        res.merge(p)
    return res.out()


def replay(inp):
    return not check_case(inp)[0]
