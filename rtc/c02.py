"""C02 bounded layer: whole-run scenarios (see rtc/solver_runs.py) and ensembles driven step-wise"""
import random
from .solver_runs import run_prop, replay_prop
from .common import Result, pmap, seed_all, jsonable, Recorder, COSTS


_CALLS, _F = [], None


def _cost(x):
    p = tuple(float(v) for v in x)
    _CALLS.append(p)
    return _F(p)


def _ensemble(sc):
    """an ensemble driven with Step(); strict ranges installed before the first step, or CHANGED after k steps (members
    exist by then).  Returns the first cost call outside the box in force at the time of the call, or None."""
    import mystic.solvers as ms
    from mystic.termination import VTR
    seed_all(sc['seed'])
    n = sc['ndim']
    # the ensemble copies its nested solver (and the cost it carries) with dill: a closure or a recorder object would be
    # copied BY VALUE and the members' calls lost; a module-level function is copied by reference
    global _F
    del _CALLS[:]
    _F = COSTS[sc['cost']]
    calls, cost = _CALLS, _cost
    s = (ms.LatticeSolver(n, nbins=(2,) + (1,) * (n - 1)) if sc['kind'] == 'lattice' else ms.BuckshotSolver(n, npts=3))
    s.SetNestedSolver(getattr(ms, sc['nested']))
    s.SetStrictRanges([-3.0] * n, [3.0] * n)
    box = ([-3.0] * n, [3.0] * n)
    s.SetTermination(VTR(-1e300))
    s.SetEvaluationLimits(generations=10 ** 6, evaluations=10 ** 7)
    s.SetObjective(cost)
    for k in range(sc['nsteps']):
        if sc['change_at'] == k:
            box = ([0.0] * n, [1.0] * n)
            s.SetStrictRanges(*box)
        n0 = len(calls)
        s.Step()
        for p in calls[n0:]:
            if any(t < box[0][i] or t > box[1][i] for i, t in enumerate(p)):
                return 'step %d: cost called at %r, box in force %r..%r' % (k, list(p), box[0], box[1])
    return None


def _work(sc):
    res = Result('', '')
    try:
        bad = _ensemble(sc)
    except Exception as e:      # noqa -- harness / scenario failure is not a violation of C02
        res.extra['ensemble_aborted'] = res.extra.get('ensemble_aborted', 0) + 1
        return res.part()
    res.case('ensemble-step|%s|%s|%s' % (sc['kind'], sc['nested'], 'changed' if sc['change_at'] is not None else 'from-start'), True)
    if bad:
        # known sub-case (F46): ranges changed on the ensemble after its members exist are not handed to them
        sub = '#ranges-changed-after-members-exist' if sc['change_at'] is not None else ''
        res.violation('C02/bounded/ensemble-step/evaluated-outside-box' + sub, bad, jsonable(sc))
    return res.part()


def _scenarios(tier, seed):
    rng = random.Random(seed * 7919 + 2)
    out = []
    for i in range(8 if tier == 'quick' else 60):
        out.append(dict(kind=rng.choice(['lattice', 'buckshot']), nested=rng.choice(['NelderMeadSimplexSolver', 'PowellDirectionalSolver']),
                        ndim=rng.choice([2, 3]), cost=rng.choice(sorted(COSTS)), nsteps=rng.choice([6, 10]),
                        change_at=rng.choice([None, None, 2, 4]), seed=rng.randrange(10 ** 6), family='ensemble-step'))
    return out


def run(tier='quick', seed=0):
    out = run_prop('C02', tier, seed)
    res = Result('', '')
    for part in pmap(_work, _scenarios(tier, seed)):
        res.merge(part)
    out['evaluations'] += res.evaluations
    out['distinct_nontrivial'] += len(res.distinct)
    out['violations'] += res.violations
    out['rule'] += ('; ensembles (lattice / buckshot over NM / Powell) driven with Step(), strict ranges from the start or changed '
                    'after 2 / 4 steps: no cost call outside the box in force at the time of the call')
    return out


def replay(inp):
    if inp.get('family') == 'ensemble-step':
        return not _work(inp)['violations']
    return replay_prop('C02', inp)
