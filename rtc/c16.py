"""C16 bounded layer: every constraint transform (mystic.constraints decorators, mystic.tools input-rewriting
decorators) applied to identity on generated vectors; clauses `target` (selected entries land in the target set),
`fixed` (entries already in the target set unchanged), `frame` (unselected entries unchanged), `idempotent`
(t(t(x)) == t(x)), `raises` (the call must succeed).  The oracle is a direct evaluation of the documented definition
in plain Python; index selections are normalised here (negative -> +len, out-of-range members dropped).
Decorators that attach updater methods to the decorated function (discrete .samples/.index, integers .type/.index,
rounded/precision .digits/.index, sorting/monotonic .index, impose_bounds .clip/.nearest) are additionally built with
decoy settings and then brought to the configuration under test through those updaters (cfg['via']: which settings,
in which container form - unsorted list / tuple / array, with duplicates -, optionally after a first call and after a
first decoy update; discrete sample sets of 1-8 members whose length differs from the set the decorator was built with,
given to the decorator itself as list / tuple / array too; sorting/monotonic results also taken from the exposed
func.sorting / func.monotonic helper).  After the update the function must satisfy every clause for the NEW settings
(nearest member of the new set, members left alone, idempotent); an updater that raises on a list / tuple / array is
a `raises` violation.  Whether mystic modified an object the caller handed over is only counted (extra
'observations'): the property does not speak about it.  impose_as additionally gets masks in every shape a collapse detector can emit (pairs i<j sharing
the first / the second member, chains, several groups, cliques, tolerance graphs; as list or as set)."""
import copy
import math
import random
from .common import *       # noqa

P = 'C16/bounded/'
I = lambda x: x             # noqa: E731  (the decorated function)
INV = lambda z: 1.0 / (1.0 + z * z)      # noqa: E731  (callable used in synchronized masks)
F12 = ('discrete', 'integers', 'rounded', 'precision', 'sorting', 'monotonic')
KINDS = ['list', 'array', 'list', 'array', 'intlist']
IKINDS = ['none', 'single', 'negative', 'several', 'oor', 'negoor', 'none', 'several']


# ----------------------------------------------------------------------------- generators
def gen_vec(rng, kind, n):
    if kind == 'intlist':
        return [rng.randint(-6, 12) for _ in range(n)]
    return [rng.choice([float(rng.randint(-6, 12)), round(rng.uniform(-8, 12), rng.choice([1, 2])),
                        rng.uniform(-8, 12)]) for _ in range(n)]


def mk(kind, xs):
    return np.array(xs, dtype=float) if kind == 'array' else list(xs)


def gen_index(rng, ikind, n):
    if ikind == 'none':
        return None
    pos = list(range(n))
    rng.shuffle(pos)
    if ikind == 'single':
        return rng.choice([pos[0], [pos[0]]]) if n else [0]
    k = rng.randint(1, max(1, n))
    idx = pos[:k]
    if ikind == 'negative':
        idx = [i - n for i in idx[:max(1, k // 2)]] + idx[max(1, k // 2):]
    elif ikind == 'oor':
        idx = idx[:max(0, k - 1)] + [n + rng.randint(0, 2)]
    elif ikind == 'negoor':
        idx = idx[:max(0, k - 1)] + [-n - 1 - rng.randint(0, 2)]
    rng.shuffle(idx)
    return idx if idx else [n]


def sel(index, n):
    """normalised in-range positions addressed by an index selection (None = all)"""
    if index is None:
        return list(range(n))
    idx = [index] if isinstance(index, int) else list(index)
    return sorted(set(i + n if i < 0 else i for i in idx if -n <= i < n))


def tup(index):
    return tuple(index) if isinstance(index, list) else index


def plain(y):
    return [v.item() if hasattr(v, 'item') else v for v in y]


def ivs(b):
    b = [b] if not isinstance(b[0], (list, tuple)) else b
    return [(-math.inf if lo is None else float(lo), math.inf if hi is None else float(hi)) for lo, hi in b]


def is_digits(v, d):
    return float('%.*f' % (d, v)) == v if d >= 0 else math.fmod(v, 10.0 ** (-d)) == 0.0


# ----------------------------------------------------------------------------- own statistics (math.fsum)
def o_mean(x):
    return math.fsum(x) / len(x)


def o_var(x):
    m = o_mean(x)
    return math.fsum((v - m) ** 2 for v in x) / len(x)


STATS = {'with_mean': o_mean, 'with_variance': o_var, 'with_std': lambda x: math.sqrt(o_var(x)),
         'with_spread': lambda x: max(x) - min(x), 'normalized': math.fsum}


# ----------------------------------------------------------------------------- configurations
def gen_cfg(name, rng, n, kind):
    ik = rng.choice(IKINDS if kind != 'intlist' else ['none', 'single', 'several'])
    idx = gen_index(rng, ik, n)
    if name in ('impose_bounds', 'bounded'):
        form = rng.choice(['one', 'open', 'multi', 'dict'] if name == 'impose_bounds' else ['one', 'open', 'multi'])
        a = rng.choice([0, 0.5, -2.25])
        one, multi = [a, a + 5], [[a, a + 3], [a + 4.5, a + 6], [a + 9, a + 9]][:rng.choice([2, 3])]
        if form == 'dict':
            b = {str(k): rng.choice([one, multi]) for k in rng.sample(range(n + 2), rng.randint(1, n + 1))}
            idx = None if idx is None else sel(idx, n) or None
        else:
            b = {'one': one, 'open': rng.choice([[None, a], [a, None]]), 'multi': multi}[form]
        return dict(bounds=b, index=idx, clip=rng.random() < 0.6, nearest=rng.random() < 0.6)
    if name == 'discrete':
        return dict(samples=rng.sample(SAMPLES, rng.randint(1, 5)), index=idx)
    if name == 'integers':
        ints = rng.choice(['True', 'False', 'float', 'int'])
        if ints in ('True', 'int') and idx is not None:
            idx = sel(idx, n) or None            # F11 configurations: in-range, non-negative selections only
        return dict(ints=ints, index=idx)
    if name in ('rounded', 'precision'):
        return dict(digits=rng.choice([None, 0, 1, 2, 3, -1]), index=idx)
    if name in ('sorting', 'monotonic'):
        return dict(ascending=rng.random() < 0.5, outer=rng.random() < 0.5, index=idx)
    if name == 'impose_at':
        idx = [0] if idx is None else ([idx] if isinstance(idx, int) else idx)
        return dict(index=idx, target=rng.choice([2.5, -99.0, [float(k) + 0.5 for k in range(len(idx))]]))
    if name == 'impose_as':
        pairs, comp = [], {}
        for i, j in [(rng.randrange(n + 2), rng.randrange(n + 2)) for _ in range(rng.randint(1, 5))]:
            if comp.setdefault(i, i) != comp.setdefault(j, j):       # keep the undirected graph a forest
                ci, cj = comp[i], comp[j]
                comp = {k: (ci if v == cj else v) for k, v in comp.items()}
                pairs.append([i, j])
        if rng.random() < 0.5:      # canonical form used by the docstring: i < j, listed in increasing order
            pairs = sorted(sorted(p) for p in pairs)
        return dict(mask=pairs or [[0, 1]], offset=rng.choice([None, 0, 2.5, 10]))
    if name in STATS:
        return dict(target=rng.choice([1.0, 5.0, 0.37, 12.5]), near=False)
    if name in ('impose_unique', 'unique'):
        return dict(full=rng.choice(['none', 'int', 'float', ['range', -2, 12], ['dict', -3, 13], ['dictint', -3, 13],
                                     ['list', [-1, 0, 1, 2, 3, 5, 8, 9]]]))
    if name == 'masked':
        return dict(mask={str(k): float(10 + k) for k in rng.sample(range(n + 3), rng.randint(0, 3))})
    if name == 'partial':
        ks = sel(idx, n) if idx is not None else list(range(n))[:2]
        raw = [k - n if rng.random() < 0.3 else k for k in ks] + ([n + 1] if rng.random() < 0.3 else [])
        return dict(mask={str(k): float(20 + k) for k in raw})
    if name == 'synchronized':
        ks = rng.sample(range(n + 1), min(n + 1, rng.randint(1, 3)))
        src = [j for j in range(-n, n + 1) if j not in ks and j + n not in ks] or [n]
        return dict(mask={str(k): rng.choice([rng.choice(src), [rng.choice(src), rng.choice([2.0, -1.0, 'inv'])]])
                          for k in ks})
    if name == 'clipped':
        lo = rng.choice([None, 0.0, -2.5])
        return dict(min=lo, max=rng.choice([None, 3.0, 7.5]) if lo is not None else 3.0, exit=rng.random() < 0.5)
    if name == 'suppressed':
        return dict(tol=rng.choice([1e-8, 0.5, 3.0]), exit=rng.random() < 0.5, clip=rng.random() < 0.6)
    raise ValueError(name)


SAMPLES = [-3.0, 0.0, 1.0, 2.0, 2.5, 5.0, 7.25, 11.0]
# settings a decorated function lets the caller replace afterwards: {transform: {cfg field: updater attribute}}
UPD = {'discrete': {'samples': 'samples', 'index': 'index'}, 'integers': {'ints': 'type', 'index': 'index'},
       'rounded': {'digits': 'digits', 'index': 'index'}, 'precision': {'digits': 'digits', 'index': 'index'},
       'sorting': {'index': 'index'}, 'monotonic': {'index': 'index'},
       'impose_bounds': {'clip': 'clip', 'nearest': 'nearest'}}
INTS = {'True': True, 'False': False, 'float': float, 'int': int}


GRID = [k / 4.0 for k in range(-24, 49)]           # -6 .. 12 in quarter steps


def gen_samples(rng, other=None):
    """a sample set as a caller may hand it over: 1-8 members in arbitrary order (sometimes ascending / descending,
    sometimes with a repeated member); with `other` given, usually of a different length than that set"""
    k = rng.randint(1, 8)
    if other is not None and k == len(other) and rng.random() < 0.8:
        k = k % 8 + 1
    s = rng.sample(rng.choice([SAMPLES, GRID, GRID]), k)
    order = rng.random()
    s = sorted(s) if order < 0.25 else sorted(s, reverse=True) if order < 0.35 else s
    if rng.random() < 0.2:
        s.insert(rng.randrange(len(s) + 1), rng.choice(s))
    return s


def gen_via(name, rng, c, n):
    """configuration c (what the oracle is told) reached through updaters: -> c with 'via' (which settings, in which
    container form, whether a second decoy is installed through the updater first), 'decoys' (per setting: the value the
    decorator is built with, the value of the intermediate update), 'precall' (a call between construction and
    update), 'cform' (container handed to the decorator itself) and, for sorting/monotonic, 'hook' (the result is
    taken from the exposed func.sorting / func.monotonic helper)"""
    c = dict(c)
    if name == 'discrete':       # any order, any length, repeated members allowed
        c['samples'] = gen_samples(rng)
        c['cform'] = rng.choice(['list', 'tuple', 'array'])
    if name == 'impose_bounds' and isinstance(c['bounds'], dict):
        c['index'] = None
    fields = sorted(UPD[name])
    if name != 'discrete' and isinstance(c.get('index'), int):
        c['index'] = [c['index']]                     # updaters are handed index collections
    chosen = [f for f in fields if rng.random() < 0.7] or [rng.choice(fields)]
    if name == 'discrete' and 'samples' not in chosen and rng.random() < 0.7:
        chosen.append('samples')
    if name == 'discrete' and rng.random() < 0.1:
        chosen = []                                   # only the container handed to the decorator varies
    rng.shuffle(chosen)
    via, decoys = [], {}
    for f in chosen:
        form = rng.choice(['list', 'tuple', 'array', 'list']) if f in ('samples', 'index') else 'value'
        if f == 'index' and isinstance(c['index'], int):
            c['index'] = [c['index']]
        via.append([f, form, rng.random() < 0.3])      # [field, container, also install a decoy through the updater first]
        if f == 'samples':
            decoys[f] = [gen_samples(rng, c['samples']), gen_samples(rng, c['samples'])]
        elif f == 'index':
            decoys[f] = [decoy(name, f, c, n), rng.choice([None, [0], list(range(n))[::2] or [0], [-1]])]
    c['via'], c['decoys'] = via, decoys
    c['precall'] = rng.random() < 0.4
    if name in ('sorting', 'monotonic'):
        c['hook'] = rng.random() < 0.3
    return c


def decoy(name, f, c, n, k=0):
    if f in c.get('decoys', {}):
        return c['decoys'][f][k]
    if f == 'samples':
        return [100.0, -50.0, 25.0]
    if f == 'index':
        return None if c['index'] is not None else [0]
    if f == 'digits':
        return 5 if c['digits'] != 5 else 4
    if f == 'ints':
        return {'True': 'float', 'int': 'False', 'False': 'int', 'float': 'True'}[c['ints']]
    return not c[f]


def contain(form, v):
    if v is None or form == 'value':
        return v
    return np.array(v) if form == 'array' else tuple(v) if form == 'tuple' else list(v)


def same(a, b):
    if type(a) is not type(b):
        return False
    return (a.dtype == b.dtype and np.array_equal(a, b)) if isinstance(a, np.ndarray) else a == b


NAMES = ['impose_bounds', 'bounded', 'discrete', 'integers', 'rounded', 'precision', 'impose_unique', 'unique',
         'sorting', 'monotonic', 'impose_at', 'impose_as', 'with_mean', 'with_variance', 'with_std', 'with_spread',
         'normalized', 'masked', 'partial', 'synchronized', 'clipped', 'suppressed']


def build(name, c, x=None):
    """-> (the transform in configuration c, held); with c['via'] it is decorated with decoys and updated to c
    afterwards.  held = [(what, the object handed to mystic, an untouched copy of it)]: whether mystic changed the
    caller's object is counted as an observation only (the property does not speak about it)"""
    held = []
    via = c.get('via')
    if not via:
        return build_plain(name, c, held), held
    c0 = dict(c)
    for f, _, _ in via:
        c0[f] = decoy(name, f, c, 0)
    t = build_plain(name, c0, held)
    if c.get('precall') and x is not None:
        try:
            t(x)                                        # a call in the decoy configuration, result not looked at
        except Exception:      # noqa
            pass
    for f, form, twice in via:
        upd = getattr(t, UPD[name][f])
        val = lambda v: INTS[v] if f == 'ints' else contain(form, v)      # noqa: E731
        if twice:
            update(upd, val(decoy(name, f, c, 0, 1)))
            if c.get('precall') and x is not None and f == 'samples':
                try:
                    t(copy.deepcopy(x))
                except Exception:      # noqa
                    pass
        arg = val(c[f])
        held.append(('%s-%s' % (f, form), arg, copy.deepcopy(arg)))
        update(upd, arg)
    return t, held


class Refused(Exception):
    """an updater method raised"""


def update(upd, arg):
    try:
        upd(arg)
    except Exception as e:      # noqa
        raise Refused('%s(%r) raised %s: %s' % (getattr(upd, '__name__', 'updater'), arg, type(e).__name__, e))


def build_plain(name, c, held=None):
    import mystic.constraints as mc
    import mystic.tools as mt
    idx = tup(c.get('index'))
    if name in ('impose_bounds', 'bounded'):
        b = c['bounds']
        conv = lambda v: [tuple(p) for p in v] if isinstance(v[0], list) else tuple(v)      # noqa: E731
        b = {int(k): conv(v) for k, v in b.items()} if isinstance(b, dict) else conv(b)
        if name == 'bounded':
            return lambda x: mc.bounded(x, b, idx, c['clip'], c['nearest'])
        return mc.impose_bounds(b, idx, c['clip'], c['nearest'])(I)
    if name == 'discrete':
        arg = contain(c.get('cform', 'list'), c['samples'])
        if held is not None:
            held.append(('ctor-samples-%s' % c.get('cform', 'list'), arg, copy.deepcopy(arg)))
        return mc.discrete(arg, idx)(I)
    if name == 'integers':
        return mc.integers(INTS[c['ints']], idx)(I)
    if name in ('rounded', 'precision'):
        return getattr(mc, name)(c['digits'], idx)(I)
    if name in ('sorting', 'monotonic'):
        return getattr(mc, name)(c['ascending'], c['outer'], idx)(I)
    if name == 'impose_at':
        return mc.impose_at(list(c['index']), c['target'])(I)
    if name == 'impose_as':
        return mc.impose_as([tuple(p) for p in c['mask']], c['offset'])(I)
    if name in STATS:
        return getattr(mc, name)(c['target'])(I)
    if name in ('impose_unique', 'unique'):
        f = c['full']
        full = {'none': None, 'int': int, 'float': float}[f] if isinstance(f, str) else \
            range(f[1], f[2]) if f[0] == 'range' else list(f[1]) if f[0] == 'list' else \
            dict([('min', f[1]), ('max', f[2])] + ([('type', int)] if f[0] == 'dictint' else []))
        return mc.impose_unique(full)(I) if name == 'impose_unique' else (lambda x: mc.unique(x, full))
    if name == 'masked':
        return mt.masked({int(k): v for k, v in c['mask'].items()})(I)
    if name == 'partial':
        return mt.partial({int(k): v for k, v in c['mask'].items()})(I)
    if name == 'synchronized':
        fn = lambda v: tuple([v[0], INV if v[1] == 'inv' else v[1]]) if isinstance(v, list) else v  # noqa
        return mt.synchronized({int(k): fn(v) for k, v in c['mask'].items()})(I)
    if name == 'clipped':
        return mt.clipped(c['min'], c['max'], c['exit'])(I)
    if name == 'suppressed':
        return mt.suppressed(c['tol'], c['exit'], c['clip'])(I)
    raise ValueError(name)


# ----------------------------------------------------------------------------- oracles: return [(clause, detail)]
def oracle(name, c, x, y, n):
    bad = []
    add = lambda cl, i, why: bad.append((cl, 'entry %s: %s' % (i, why)))      # noqa: E731
    if name != 'masked' and len(y) != n:
        return [('target', 'length changed %d -> %d' % (n, len(y)))]
    S = sel(c.get('index'), n)
    frame = [i for i in range(n) if i not in S]
    if name in ('impose_bounds', 'bounded'):
        b = c['bounds']
        if isinstance(b, dict):
            keep = None if c['index'] is None else set(c['index'])
            spec = {int(k): ivs(v) for k, v in b.items() if 0 <= int(k) < n and (keep is None or int(k) in keep)}
        else:
            spec = {i: ivs(b) for i in S}
        frame = [i for i in range(n) if i not in spec]
        for i, iv in spec.items():
            if inside(x[i], iv):
                y[i] == x[i] or add('fixed', i, '%r inside %r but moved to %r' % (x[i], iv, y[i]))
            elif not inside(y[i], iv):
                add('target', i, '%r -> %r not inside %r' % (x[i], y[i], iv))
            elif c['clip'] and y[i] not in [e for p in iv for e in p]:
                add('target', i, 'clip: %r -> %r is not an interval end of %r' % (x[i], y[i], iv))
    elif name == 'discrete':
        for i in S:
            d = abs(x[i] - y[i])
            if x[i] in c['samples']:
                y[i] == x[i] or add('fixed', i, '%r is a member of %r but moved to %r' % (x[i], sorted(c['samples']), y[i]))
            elif y[i] not in c['samples'] or any(abs(x[i] - s) < d for s in c['samples']):
                add('target', i, '%r -> %r is not the nearest member of %r' % (x[i], y[i], sorted(c['samples'])))
    elif name == 'integers':
        for i in S:
            if y[i] != math.floor(y[i]) or abs(x[i] - y[i]) > 0.5:
                add('target', i, '%r -> %r is not the nearest integer' % (x[i], y[i]))
    elif name in ('rounded', 'precision'):
        d = c['digits'] or 0
        for i in S:
            if is_digits(x[i], d):
                y[i] == x[i] or add('fixed', i, '%r has %d digits but became %r' % (x[i], d, y[i]))
            elif not is_digits(y[i], d) or abs(x[i] - y[i]) > 0.5 * 10.0 ** -d * (1 + 1e-9) + 1e-12 * abs(x[i]):
                add('target', i, '%r -> %r is not %r rounded to %d digits' % (x[i], y[i], x[i], d))
    elif name in ('sorting', 'monotonic'):
        xs, ys = [x[i] for i in S], [y[i] for i in S]
        up = c['ascending']
        if any((a > b) if up else (a < b) for a, b in zip(ys, ys[1:])):
            add('target', S, 'selected entries %r are not in %s order' % (ys, 'ascending' if up else 'descending'))
        if name == 'sorting' and sorted(xs) != sorted(ys):
            add('target', S, 'selected entries %r are not a permutation of %r' % (ys, xs))
        if not any((a > b) if up else (a < b) for a, b in zip(xs, xs[1:])) and xs != ys:
            add('fixed', S, 'selected entries %r already ordered but became %r' % (xs, ys))
    elif name == 'impose_at':
        tg = c['target']
        want = {}
        for k, i in enumerate(c['index']):
            if -n <= i < n:
                want[i % n] = tg[k] if isinstance(tg, list) else tg
        for i, v in want.items():
            y[i] == v or add('target', i, '%r -> %r, pinned value is %r' % (x[i], y[i], v))
    elif name == 'impose_as':
        off = c['offset'] or 0
        frame = [i for i in range(n) if not any(i in p for p in c['mask'])]
        for i, j in c['mask']:
            if i < n and j < n and y[j] != y[i] + off:
                add('target', j, 'pair (%d,%d): y[%d]=%r but y[%d]+offset=%r' % (i, j, j, y[j], i, y[i] + off))
    elif name in STATS:
        frame = []
        got = STATS[name](y)
        feq(got, c['target'], 1e-9, 1e-12) or add('target', '*', '%s of result is %r, target %r' % (name, got, c['target']))
    elif name in ('impose_unique', 'unique'):
        f, frame, seen = c['full'], [], set()
        if isinstance(f, list) and f[0] in ('list', 'range'):
            pool = f[1] if f[0] == 'list' else range(f[1], f[2])
            allowed = lambda v: v in pool                                              # noqa: E731
        else:
            lo, hi = (min(x), max(x)) if isinstance(f, str) else (f[1], f[2])
            asint = f == 'int' or (isinstance(f, list) and f[0] == 'dictint') or \
                (f == 'none' and all(isinstance(v, int) for v in x))
            allowed = lambda v: lo <= v <= hi and (not asint or v == math.floor(v))    # noqa: E731
        if len(set(y)) != len(y):
            add('target', '*', 'result %r is not pairwise distinct' % (y,))
        for i in range(n):
            if x[i] not in seen:
                seen.add(x[i])
                y[i] == x[i] or add('frame', i, 'first occurrence %r changed to %r' % (x[i], y[i]))
            elif not allowed(y[i]):
                add('target', i, 'replacement %r is not an allowed value for full=%r' % (y[i], f))
    elif name == 'masked':
        m = {int(k): v for k, v in c['mask'].items()}
        rest = [v for k, v in enumerate(y) if k not in m]
        if len(y) != n + len(m) or any(y[k] != v for k, v in m.items()) or rest != list(x):
            add('target', '*', 'result %r is not x with %r inserted' % (y, m))
        frame = []
    elif name == 'partial':
        m = {int(k) % n: v for k, v in c['mask'].items() if -n <= int(k) < n}
        frame = [i for i in range(n) if i not in m]
        for i, v in m.items():
            y[i] == v or add('target', i, '%r -> %r, fixed value is %r' % (x[i], y[i], v))
    elif name == 'synchronized':
        m = {int(k): v for k, v in c['mask'].items()}
        frame = [i for i in range(n) if i not in m]
        for i, v in m.items():
            j, s = (v[0], v[1]) if isinstance(v, list) else (v, None)
            if i < n and -n <= j < n:
                want = x[j] if s is None else INV(x[j]) if s == 'inv' else s * x[j]
                y[i] == want or add('target', i, 'y[%d]=%r but the tracked value is %r' % (i, y[i], want))
            elif i < n:
                frame.append(i)
    elif name == 'clipped':
        frame = []
        lo, hi = (-math.inf if c['min'] is None else c['min']), (math.inf if c['max'] is None else c['max'])
        for i in range(n):
            y[i] == min(max(x[i], lo), hi) or add('target', i, '%r -> %r with [%r, %r]' % (x[i], y[i], lo, hi))
    elif name == 'suppressed':
        small = [i for i in range(n) if abs(x[i]) < c['tol']]
        frame = [i for i in range(n) if i not in small] if c['clip'] else []
        for i in small:
            y[i] == 0.0 or add('target', i, '|%r| < tol %r but result %r' % (x[i], c['tol'], y[i]))
        if not c['clip'] and len(small) < n and not feq(math.fsum(y), math.fsum(x), 1e-9, 1e-9):
            add('target', '*', 'clip=False: sum %r -> %r not preserved' % (math.fsum(x), math.fsum(y)))
    for i in frame:
        y[i] == x[i] or add('frame', i, 'unselected entry %r changed to %r' % (x[i], y[i]))
    return bad


def inside(v, iv):
    return any(lo <= v <= hi for lo, hi in iv)


def tag(name, c, kind, n):
    """sub-case label computed from the INPUT only (never from the outcome)"""
    if n == 0 and name in ('discrete', 'suppressed'):
        return 'empty'
    if name == 'synchronized' and kind == 'array' and any(isinstance(v, list) for v in c['mask'].values()):
        return 'array,scaled'
    if name in ('impose_unique', 'unique'):
        return 'dict-int' if isinstance(c['full'], list) and c['full'][0] == 'dictint' else ''
    idx = c.get('index')
    idx = [] if idx is None else [idx] if isinstance(idx, int) else list(idx)
    if name == 'impose_as':
        idx = [i for p in c['mask'] for i in p]
    if name in ('partial', 'synchronized', 'masked'):
        idx = [int(k) for k in c['mask']]
    oor = any(i >= n or i < -n for i in idx)
    if name == 'impose_at' and oor:
        return 'target-list,oor' if isinstance(c['target'], list) else 'neg-oor' if min(idx) < -n else 'oor-index'
    if oor and name != 'masked':
        return 'F12' if name in F12 else 'oor-index'
    if name == 'integers' and c['ints'] in ('True', 'int') and c['index'] is not None:
        return 'F11'
    if name == 'impose_as':
        if c['offset'] and any(sum(1 for p in c['mask'] if p[1] == j) > 1 for _, j in c['mask']):
            return 'multi-tracked,offset'       # an entry tracking two partners while offsets accumulate
        comp = {}
        for i, j in c['mask']:          # a pair joining two components that already exist (in listing order)
            if i in comp and j in comp and comp[i] != comp[j]:
                return 'bridging-pair'
            r = comp.get(i, comp.get(j, i))
            comp[i] = comp[j] = r
        if c['mask'] != sorted(sorted(p) for p in c['mask']):
            return 'unordered-mask'
    if any(i < 0 for i in idx):
        return 'neg-index'
    if name in STATS and c.get('near'):
        return 'within-1e-7'
    return 'int-input' if kind == 'intlist' else ''


# ----------------------------------------------------------------------------- one case
def check_case(case):
    """-> (violations [(key, detail)], nontrivial, abort reason or None)"""
    name, c, kind, xs = case['t'], case['cfg'], case['kind'], case['x']
    n = len(xs)
    tg = tag(name, c, kind, n)
    key = lambda cl, extra='': P + name + '/' + cl + ('#' + ','.join(v for v in (tg, extra) if v) if tg or extra else '')  # noqa
    if name in STATS and n and c.get('near'):      # directed: statistic within 1e-7 (not 1e-9) of the target
        s = STATS[name](xs)
        if name == 'with_mean':
            xs = [v + (c['target'] * (1 + 3e-8) - s) for v in xs]
        elif s and name != 'with_mean':
            k = c['target'] * (1 + 3e-8) / s
            k = math.sqrt(k) if name == 'with_variance' else k
            m = 0.0 if name == 'normalized' else o_mean(xs)
            xs = [m + (v - m) * k for v in xs]
    degenerate = name in STATS and (n == 0 or (name != 'with_mean' and STATS[name](xs) == 0) or
                                    (name == 'normalized' and abs(math.fsum(xs)) <= 1e-9 * math.fsum(map(abs, xs))) or
                                    (name != 'normalized' and name != 'with_mean' and max(xs) == min(xs)))
    seed_all(case['seed'])
    try:
        t, held = build(name, c, mk(kind, xs))
    except Refused as e:        # a documented updater must accept list / tuple / array
        return [(key('raises'), str(e))], True, None, []
    if c.get('hook'):           # the helper the decorator exposes (func.sorting / func.monotonic), used on its own
        t = (lambda h: lambda x: h(x, ascending=c['ascending']))(getattr(t, name))
    unheld = lambda: ['%s argument %s modified' % (name, w) for w, a, a0 in held if not same(a, a0)]      # noqa: E731
    try:
        y = plain(t(mk(kind, xs)))
    except Exception as e:      # noqa
        ok_abort = degenerate or (name in ('impose_unique', 'unique') and isinstance(e, ValueError)) or \
            (name == 'masked' and isinstance(e, KeyError))
        if ok_abort:
            return [], False, '%s: %s' % (name, type(e).__name__), []
        return [(key('raises'), '%s: %s' % (type(e).__name__, e))], True, None, unheld()
    if degenerate:
        return [], False, None, []
    x0 = plain(mk(kind, xs))
    out = [(key(cl), d) for cl, d in oracle(name, c, list(x0), list(y), n)]
    if name != 'masked' and not (name == 'suppressed' and not c['clip']) and not out:
        try:
            y2 = plain(t(mk('array' if kind == 'array' else 'list', y)))
            if list(y2) != list(y):
                out.append((key('idempotent'), 't(x)=%r but t(t(x))=%r' % (y, y2)))
            if name in ('impose_unique', 'unique'):     # the same decorated function used again on the same input
                y3 = plain(t(mk(kind, xs)))
                out += [(key(cl, 'reuse'), d) for cl, d in oracle(name, c, list(x0), list(y3), n)]
        except Exception as e:      # noqa
            out.append((key('idempotent'), 'second application raised %s: %s' % (type(e).__name__, e)))
    return out, n > 0 and list(y) != list(xs), None, unheld()


# impose_as sub-cases that random generation reaches only now and then (kept so that the key set is seed-independent)
DIRECTED = [([[0, 1], [2, 3], [2, 0]], 10), ([[0, 1], [2, 0], [3, 0]], 10), ([[4, 0]], 10), ([[0, 1], [2, 0]], 10),
            ([[0, 1], [2, 3], [0, 3]], None), ([[0, 1], [1, 2], [3, 2]], 10), ([[4, 0], [0, 1]], None),
            ([[0, 1], [3, 1], [1, 2]], 10), ([[0, 1], [1, 2], [2, 3]], 2.5)]


def gen_cases(seed, per):
    rng = random.Random(seed)
    cases = [dict(t='impose_as', cfg=dict(mask=m, offset=o), kind='list', x=[1.0, 2.0, 4.0, 8.0], seed=0) for m, o in DIRECTED]
    for name in NAMES:
        for k in range(per):
            kind = KINDS[k % len(KINDS)]
            n = [0, 1, 2, 3, 4, 5, 6, 7, 8, 3, 4, 5][rng.randrange(12)] if k >= 9 else k
            if name in ('impose_unique', 'unique'):
                xs = [rng.randint(0, 9) for _ in range(n)]
                xs = [float(v) for v in xs] if k % 3 == 2 else xs
            else:
                xs = gen_vec(rng, kind, n)
            cases.append(dict(t=name, cfg=gen_cfg(name, rng, n, kind), kind=kind, x=xs, seed=rng.randrange(10 ** 6)))
    for name in sorted(UPD):            # the same transforms, configured through their updater methods
        for k in range(per):
            kind = KINDS[k % len(KINDS)]
            n = [0, 1, 2, 3, 4, 5, 6, 7, 8, 3, 4, 5][rng.randrange(12)] if k >= 9 else k
            xs = gen_vec(rng, kind, n)
            c = gen_via(name, rng, gen_cfg(name, rng, n, kind), n)
            if name == 'discrete' and kind != 'intlist':        # some entries that conform already
                xs = [rng.choice(c['samples']) if rng.random() < 0.25 else v for v in xs]
            cases.append(dict(t=name, cfg=c, kind=kind, x=xs, seed=rng.randrange(10 ** 6)))
    return cases


def work(chunk):
    res = Result('', '')
    aborted, observed = {}, {}
    for case in chunk:
        viol, nontrivial, ab, obs = check_case(case)
        for o in obs:
            observed[o] = observed.get(o, 0) + 1
        c = case['cfg']
        ik = 'none' if c.get('index', 0) is None else 'idx'
        res.case('%s|%s|n=%d|%s|%s' % (case['t'], case['kind'], len(case['x']), ik,
                                       sorted((k, str(v)) for k, v in c.items() if k not in ('index', 'mask', 'decoys'))),
                 nontrivial, jsonable(case) if nontrivial else None)
        if ab:
            aborted[ab] = aborted.get(ab, 0) + 1
        for k, d in viol:
            res.violation(k, d, jsonable(case))
    p = res.part()
    p['aborted'], p['observed'] = aborted, observed
    return p


def run(tier='quick', seed=0):
    per = 1200 if tier == 'quick' else 30000
    res = Result(rule='for each of %d transforms: %d seeded cases = (configuration incl. index selection None/single/'
                 'negative/several/out-of-range, input kind list/array/int-list, length 0-8, vector); distinct = '
                 '(transform, configuration, kind, length); non-trivial = the transform changed the vector. with_* '
                 'degenerate inputs (empty, zero variance/spread/sum) are excluded; documented refusals (unique '
                 'ValueError, masked KeyError) are counted as aborted.  For each of the %d transforms with updater '
                 'methods (%s): %d more cases where the decorator is built with decoy settings and brought to the '
                 'configuration through func.samples/index/type/digits/clip/nearest (list/tuple/array arguments, '
                 'unsorted, repeated members, other length than the original set, optional call and decoy update in '
                 'between)' % (len(NAMES), per, len(UPD), ', '.join(sorted(UPD)), per),
                 bound='%d transforms x %d cases + %d updater-configured transforms x %d cases, lengths 0..8, values in '
                 '[-8,12], sample sets of 1-8 members, decorated function = identity' % (len(NAMES), per, len(UPD), per))
    cases = gen_cases(seed, per)
    random.Random(seed + 1).shuffle(cases)
    size = max(1, len(cases) // 64)
    aborted, observed = {}, {}
    for p in pmap(work, [cases[i:i + size] for i in range(0, len(cases), size)]):
        res.merge(p)
        for k, v in p['aborted'].items():
            aborted[k] = aborted.get(k, 0) + v
        for k, v in p['observed'].items():
            observed[k] = observed.get(k, 0) + v
    res.extra['aborted'] = aborted
    res.extra['observations'] = observed     # not part of the property: mystic changed an object the caller handed over
    res.extra['transforms'] = NAMES
    return res.out()


def replay(inp):
    inp = dict(inp)
    inp['cfg'] = dict(inp['cfg'])
    return not check_case(inp)[0]
