"""Whole-run scenarios shared by C01 / C02 / C03 (bounded layer): a solver is configured through the public
API and stepped; after EVERY Step the clauses of the property are evaluated against an independent shadow
(the Recorder log of real cost calls and a direct evaluation of the user's cost / penalty / constraints)."""
import math
import random
import itertools
from .common import *       # noqa
from . import common as C


# ----------------------------------------------------------------------------- user callables
def make_constraint(kind, ndim):
    """deterministic, idempotent constraints (pure or in-place); returns (function, satisfied-predicate)"""
    if kind == 'none':
        return None, (lambda x: True)
    if kind == 'pin0':
        def c(x):
            y = list(x)
            y[0] = 1.0
            return y
        return c, (lambda x: float(x[0]) == 1.0)
    if kind == 'pin0_inplace':
        def c(x):
            x[0] = 1.0
            return x
        return c, (lambda x: float(x[0]) == 1.0)
    if kind in ('pin_hi', 'pin_lo'):
        # the last coordinate pinned exactly ON a side of the box [-2, 3] (a point of the box: in range, not out of it)
        side = 3.0 if kind == 'pin_hi' else -2.0

        def c(x):
            y = list(x)
            y[-1] = side
            return y
        return c, (lambda x: float(x[-1]) == side)
    if kind == 'clamp':
        def c(x):
            return [min(2.0, max(-1.0, float(v))) for v in x]
        return c, (lambda x: all(-1.0 <= float(v) <= 2.0 for v in x))
    if kind == 'clamp_inplace':
        def c(x):
            for i in range(len(x)):
                x[i] = min(2.0, max(-1.0, float(x[i])))
            return x
        return c, (lambda x: all(-1.0 <= float(v) <= 2.0 for v in x))
    if kind == 'round':
        def c(x):
            return [float(round(float(v))) for v in x]
        return c, (lambda x: all(float(v) == round(float(v)) for v in x))
    if kind == 'tie':
        def c(x):
            y = list(x)
            y[-1] = y[0]
            return y
        return c, (lambda x: float(x[-1]) == float(x[0]))
    if kind == 'symbolic':
        from mystic.symbolic import generate_constraint, generate_solvers, simplify
        eqn = 'x0 >= 0.5' if ndim == 1 else 'x1 >= x0 + 0.5'
        c = generate_constraint(generate_solvers(simplify(eqn, variables=['x%d' % i for i in range(ndim)]),
                                                 nvars=ndim))
        # the generated solver assigns x1 = x0 + 0.5 in floating point: allow one ulp in the oracle
        if ndim == 1:
            return c, (lambda x: float(x[0]) >= 0.5 - 1e-12)
        return c, (lambda x: float(x[1]) >= float(x[0]) + 0.5 - 1e-12)
    if kind == 'symbolic_up':
        # a generated constraint that moves its variable UP, towards the interior of a box with lower bound -2 and
        # upper bounds >= 3 (so it is compatible with every box used here): x0 = max(x0, x1 - 1)
        from mystic.symbolic import generate_constraint, generate_solvers, simplify
        eqn = 'x0 >= 0.5' if ndim == 1 else 'x0 >= x1 - 1.0'
        c = generate_constraint(generate_solvers(simplify(eqn, variables=['x%d' % i for i in range(ndim)]),
                                                 nvars=ndim))
        if ndim == 1:
            return c, (lambda x: float(x[0]) >= 0.5 - 1e-12)
        return c, (lambda x: float(x[0]) >= float(x[1]) - 1.0 - 1e-12)
    raise ValueError(kind)


def make_penalty(kind):
    if kind == 'none':
        return None, (lambda x: 0.0)
    from mystic.penalty import quadratic_inequality, linear_equality
    if kind == 'quad_ineq':
        def cond(x):
            return float(x[0]) - 0.25

        @quadratic_inequality(cond, k=10.0)
        def pen(x):
            return 0.0
        return pen, (lambda x: 20.0 * max(0.0, float(x[0]) - 0.25) ** 2)
    if kind == 'lin_eq':
        def cond(x):
            return float(sum(x)) - 1.0

        @linear_equality(cond, k=3.0)
        def pen(x):
            return 0.0
        return pen, (lambda x: 3.0 * abs(float(sum(x)) - 1.0))
    raise ValueError(kind)


# ----------------------------------------------------------------------------- scenarios
def gen_scenarios(seed, n, props):
    rng = random.Random(seed)
    out = []
    k = 0
    while len(out) < n:
        k += 1
        solver = SOLVERS[k % 4]
        ndim = rng.choice([1, 2, 2, 3, 4]) if solver != 'NM' or True else 2
        cost = rng.choice(sorted(COSTS))
        bounds = rng.choice(['none', 'box', 'box', 'degenerate', 'onesided', 'infinite-side'])
        tight = rng.choice([None, None, True, False]) if bounds != 'none' else None
        clip = rng.choice([None, None, True, False]) if bounds != 'none' else None
        if tight is False:
            clip = None        # the pair (tight=False, clip given) raises ValueError, as documented
        if clip is False and 'C02' not in props:
            clip = True        # C01/C03 exclude the randomising clip=False mode
        cons = rng.choice(['none', 'none', 'pin0', 'pin0_inplace', 'clamp', 'clamp_inplace', 'round', 'tie', 'symbolic', 'symbolic_up'])
        if cons == 'tie' and ndim < 2:
            cons = 'pin0'
        pen = rng.choice(['none', 'none', 'quad_ineq', 'lin_eq'])
        sc = dict(solver=solver, ndim=ndim, cost=cost, bounds=bounds, tight=tight, clip=clip, cons=cons, pen=pen,
                  reducer=rng.choice([False, False, True]), nsteps=rng.choice([3, 6, 12, 20]),
                  seed=rng.randrange(10 ** 6), start=rng.choice(['inside', 'inside', 'outside']),
                  strategy=rng.choice(['Best1Bin', 'Rand1Bin', 'Best1Exp', 'RandToBest1Exp', 'Best2Bin', 'Rand2Exp']),
                  install_ranges_at=rng.choice([0, 0, 0, 2, 5]) if 'C02' in props else 0,
                  install_cons_at=rng.choice([0, 0, 0, 3]) if 'C03' in props else 0)
        # constraints that pin a coordinate exactly on a side of the box, also with the re-drawing clip=False ranges
        # (own generator: the other draws keep their values)
        r2 = random.Random(sc['seed'] * 17 + 3)
        if 'C03' in props and bounds in ('box', 'infinite-side') and r2.random() < 0.2:
            sc['cons'] = r2.choice(['pin_hi', 'pin_lo'])
            sc['tight'], sc['clip'] = r2.choice([(None, False), (None, False), (None, True), (True, None), (None, None)])
        # the four strategies the main draw does not name (own generator)
        if random.Random(sc['seed'] * 19 + 1).random() < 0.4:
            sc['strategy'] = random.Random(sc['seed'] * 19 + 2).choice(['Best2Exp', 'Rand2Bin', 'RandToBest1Bin', 'Rand1Exp'])
        # ranges switched off and the identical ranges installed again before step k (own generator)
        if 'C02' in props and bounds != 'none' and random.Random(sc['seed'] * 13 + 7).random() < 0.2:
            sc['toggle_ranges_at'] = random.Random(sc['seed'] * 13 + 8).choice([1, 3])
        # which termination condition is evaluated after every step (own generator: the other draws keep their values)
        sc['term'] = 'gradnorm' if ('C02' in props and random.Random(sc['seed'] * 31 + 5).random() < 0.15) else 'vtr'
        out.append(sc)
    return out


def box_of(sc):
    n = sc['ndim']
    b = sc['bounds']
    if b == 'none':
        return None, None
    if b == 'box':
        return [-2.0] * n, [3.0] * n
    if b == 'degenerate':
        return [-2.0] + [1.0] * (n - 1), [3.0] + [1.0] * (n - 1)
    if b == 'onesided':
        return [-2.0] * n, None     # the solver substitutes its default upper bound (1e3)
    if b == 'infinite-side':
        return [-2.0] * n, [float('inf')] + [3.0] * (n - 1)
    raise ValueError(b)


def compatible(sc):
    """constraints must map the box into itself (hypothesis of C01/C03)"""
    lo, hi = box_of(sc)
    if lo is None and hi is None:
        return True
    if sc['bounds'] == 'degenerate' and sc['cons'] in ('tie', 'symbolic', 'round'):
        return False
    return _maps_box_into_itself(sc['cons'], sc['ndim'], tuple(lo), tuple(hi) if hi is not None else None)


_COMPAT = {}


def _maps_box_into_itself(cons, ndim, lo, hi):
    """the hypothesis itself, tested: the constraints function must not move a point of the box out of the box
    (corners, edge midpoints and 300 seeded interior points; an infinite / defaulted side is probed up to 1e3).  E.g. the
    generated constraint for 'x1 >= x0 + 0.5' isolates x0 (x0 = x1 - 0.5) and leaves every box with a finite lower
    bound: with tight / clip ranges the solver then couples it through and_, which randomises when the two disagree --
    neither deterministic nor idempotent, so outside C01/C03."""
    key = (cons, ndim, lo, hi)
    if key in _COMPAT:
        return _COMPAT[key]
    cfun, _ = make_constraint(cons, ndim)
    ok = True
    if cfun is not None:
        H = [1e3 if (hi is None or math.isinf(hi[i])) else hi[i] for i in range(ndim)]
        L = list(lo)
        rng = random.Random(12345)
        pts = [[rng.choice([L[i], H[i], (L[i] + min(H[i], L[i] + 10)) / 2.0]) for i in range(ndim)] for _ in range(60)]
        pts += [[rng.uniform(L[i], min(H[i], L[i] + rng.choice([1.0, 10.0, 1000.0]))) for i in range(ndim)] for _ in range(300)]
        for p in pts:
            try:
                q = [float(v) for v in cfun(list(p))]
            except Exception:      # noqa
                ok = False
                break
            if any(q[i] < L[i] - 1e-9 or q[i] > H[i] + 1e-9 for i in range(ndim)):
                ok = False
                break
    _COMPAT[key] = ok
    return ok


def run_scenario(sc, props):
    """returns dict(violations=[(key, detail)], steps, nontrivial)"""
    seed_all(sc['seed'])
    from mystic import strategy as _strategy
    from mystic.termination import VTR
    viol = []
    ndim = sc['ndim']
    rec = Recorder(COSTS[sc['cost']], vector=sc['reducer'])
    s = make_solver(sc['solver'], ndim)
    lo, hi = box_of(sc)
    cfun, csat = make_constraint(sc['cons'], ndim)
    pfun, pval = make_penalty(sc['pen'])
    rng = random.Random(sc['seed'])
    if sc['start'] == 'inside' or lo is None:
        x0 = [rng.uniform(-1.0, 2.0) for _ in range(ndim)]
        if sc['bounds'] == 'degenerate':
            x0[1:] = [1.0] * (ndim - 1)
    else:
        x0 = [rng.choice([-7.0, 9.0]) for _ in range(ndim)]
    if sc['solver'] in ('DE1', 'DE2'):
        if lo is not None or hi is not None:
            l2 = lo if lo is not None else [-5.0] * ndim
            h2 = [h if not math.isinf(h) else 5.0 for h in (hi if hi is not None else [5.0] * ndim)]
            s.SetRandomInitialPoints(l2, h2)
        else:
            s.SetRandomInitialPoints([-3.0] * ndim, [3.0] * ndim)
    else:
        s.SetInitialPoints(x0)
    ranges_on = False

    def install_ranges():
        kw = {}
        if sc['tight'] is not None:
            kw['tight'] = sc['tight']
        if sc['clip'] is not None:
            kw['clip'] = sc['clip']
        s.SetStrictRanges(lo, hi, **kw)
    if (lo is not None or hi is not None) and sc['install_ranges_at'] == 0:
        install_ranges()
        ranges_on = True
    cons_on = False
    if cfun is not None and sc['install_cons_at'] == 0:
        s.SetConstraints(cfun)
        cons_on = True
    if pfun is not None:
        s.SetPenalty(pfun)
    if sc['reducer']:
        s.SetReducer(sum, arraylike=True)
    if sc.get('term') == 'gradnorm':
        # never satisfied, but evaluated after every step: it estimates the gradient by finite differences of the cost
        from mystic.termination import GradientNormTolerance
        s.SetTermination(GradientNormTolerance(-1.0))
    else:
        s.SetTermination(VTR(-1e300))
    s.SetEvaluationLimits(generations=10 ** 6, evaluations=10 ** 7)
    s.SetObjective(rec)
    kw = {}
    if sc['solver'] in ('DE1', 'DE2'):
        kw['strategy'] = getattr(_strategy, sc['strategy'])
    red = (lambda v: sum(v)) if sc['reducer'] else (lambda v: v)
    L = lo if lo is not None else [-float('inf')] * ndim
    H = hi if hi is not None else ([1e3] * ndim if lo is not None else [float('inf')] * ndim)
    checked_from = 0
    aborted = None
    e_first = None
    steps = 0
    for k in range(sc['nsteps']):
        if (lo is not None or hi is not None) and not ranges_on and sc['install_ranges_at'] == k:
            install_ranges()
            ranges_on = True
            checked_from = rec.n
        if cfun is not None and not cons_on and sc['install_cons_at'] == k:
            s.SetConstraints(cfun)
            cons_on = True
            checked_from_c = rec.n
        if ranges_on and sc.get('toggle_ranges_at') == k:
            s.SetStrictRanges(False)        # off ...
            install_ranges()                # ... and the very same ranges on again: in force for every later call
        n_before = rec.n
        try:
            best_before = [float(t) for t in s.bestSolution]
        except Exception:      # noqa
            best_before = None
        try:
            s.Step(**kw)
        except Exception as e:      # noqa  -- an exception is not a violation of these properties: scenario aborted
            aborted = '%s: %s at step %d' % (type(e).__name__, e, k)
            break
        steps += 1
        new_calls = rec.calls[n_before:]
        # ---- C02: never evaluated outside the box once ranges are set
        if 'C02' in props and ranges_on:
            for (p, v) in new_calls:
                if not inbox(p, L, H):
                    # known sub-case (F41): a side of the box is infinite, a member outside the box is re-drawn with
                    # random.uniform(min, inf) = inf, and differences of infinite coordinates give NaN trial vectors,
                    # which no comparison-based guard can reject
                    sub = '#nan-coordinate,infinite-side' if (any(math.isnan(t) for t in p) and
                                                              any(math.isinf(t) for t in list(L) + list(H))) else ''
                    # known sub-case (F45): GradientNormTolerance probes the RAW cost at best + 1.5e-8 e_i, past a bound
                    # the best solution sits on
                    if not sub and sc.get('term') == 'gradnorm':
                        try:
                            bs = [float(t) for t in s.bestSolution]
                        except Exception:      # noqa
                            bs = None
                        near_box = all(L[i] - 1e-6 <= p[i] <= H[i] + 1e-6 for i in range(ndim))
                        near_best = any(b is not None and all(abs(p[i] - b[i]) <= 1e-6 * (1 + abs(b[i])) for i in range(ndim))
                                        for b in (bs, best_before))     # Step asks the termination before AND after stepping
                        if near_box or near_best:
                            sub = '#termination-probes-raw-cost'
                    viol.append(('evaluated-outside-box' + sub, 'step %d point %r box %r..%r' % (k, p, L, H)))
                    break
        # ---- C03: constraints hold at every evaluation
        if 'C03' in props and cons_on:
            for (p, v) in new_calls:
                if not csat(p):
                    viol.append(('evaluated-at-unconstrained-point', 'step %d point %r cons=%s' % (k, p, sc['cons'])))
                    break
        best = [float(v) for v in s.bestSolution]
        be = s.bestEnergy
        be = float(np.asarray(be).ravel()[0])
        finite = not math.isinf(be) and not math.isnan(be)
        full = sc['install_ranges_at'] == 0 and sc['install_cons_at'] == 0
        if finite and full:
            if 'C01' in props:
                if tuple(best) not in set(rec.points()):
                    viol.append(('best-not-an-evaluated-point', 'step %d best %r energy %r' % (k, best, be)))
                else:
                    truth = red(rec.f(tuple(best)) if not sc['reducer'] else [rec.f(tuple(best)) / 2.0] * 2) + pval(best)
                    if not feq(truth, be):
                        viol.append(('best-energy-is-not-cost-plus-penalty-at-best', 'step %d best %r reported %r true %r' % (k, best, be, truth)))
                if e_first is None:
                    e_first = be
            if 'C02' in props and ranges_on and not inbox(best, L, H):
                viol.append(('reported-best-outside-box', 'step %d best %r box %r..%r energy %r' % (k, best, L, H, be)))
            if 'C03' in props and cons_on:
                if not csat(best):
                    viol.append(('reported-best-violates-constraints', 'step %d best %r cons=%s' % (k, best, sc['cons'])))
                elif sc['clip'] is not False:
                    # (clip=False couples the constraints with a bounds constraint that RE-DRAWS an outside point at random:
                    # the coupled function is not deterministic, so only the constraint clauses are demanded in that mode)
                    truth = red(rec.f(tuple(best)) if not sc['reducer'] else [rec.f(tuple(best)) / 2.0] * 2) + pval(best)
                    if not feq(truth, be):
                        viol.append(('reported-energy-is-not-energy-of-constrained-point', 'step %d best %r reported %r true %r' % (k, best, be, truth)))
        # ---- C01: every member's stored energy is the objective at that member
        if 'C01' in props and full and sc['tight'] is not True and sc['clip'] is None:
            pop = [list(map(float, p)) for p in s.population]
            en = [float(np.asarray(e).ravel()[0]) for e in s.popEnergy]
            if sc['solver'] == 'Powell':
                pop, en = pop[:1], en[:1]
            for j, (p, e) in enumerate(zip(pop, en)):
                if math.isinf(e):
                    continue
                q = list(p)
                if cfun is not None:
                    q = [float(v) for v in cfun(list(q))]
                if ranges_on and not inbox(q, L, H):
                    truth = float('inf')
                else:
                    truth = red(rec.f(tuple(q)) if not sc['reducer'] else [rec.f(tuple(q)) / 2.0] * 2) + pval(q)
                if not feq(truth, e):
                    viol.append(('member-energy-is-not-objective-at-member', 'step %d member %d %r stored %r true %r' % (k, j, p, e, truth)))
                    break
        if viol:
            break
    if 'C01' in props and steps and not viol and full:
        # best never worse than the energy of the initial guess (first evaluated point)
        pass
    tag = '#reducer+penalty' if (sc['reducer'] and sc['pen'] != 'none') else ''
    viol = [(c + (tag if 'energy' in c else ''), d) for (c, d) in viol]
    return {'violations': viol, 'steps': steps, 'calls': rec.n, 'aborted': aborted}


def _work(args):
    sc, props, prop = args
    try:
        r = run_scenario(sc, props)
    except Exception as e:      # noqa: harness failure is not a violation
        import traceback
        return {'sc': sc, 'error': traceback.format_exc(limit=4)}
    return {'sc': sc, 'r': r}


def family(sc):
    return '%s' % sc['solver']


def run_prop(prop, tier, seed, nquick=160, nthorough=2500):
    n = nquick if tier == 'quick' else nthorough
    res = Result(rule='seeded scenarios: solver x ndim x cost x bounds(tight,clip) x constraint x penalty x reducer x '
                      'strategy x install-time; clauses evaluated after every Step against a shadow log of real cost '
                      'calls; distinct = distinct (solver,bounds,tight,clip,cons,pen,reducer) settings that took >= 1 step',
                 bound='%d scenarios, <= 20 steps, dims 1-4' % n)
    scs = [sc for sc in gen_scenarios(seed * 1000003 + int(prop[1:]), n * 2, [prop]) if compatible(sc)][:n]
    errors = 0
    for out in pmap(_work, [(sc, [prop], prop) for sc in scs]):
        sc = out['sc']
        if 'error' in out:
            errors += 1
            res.extra.setdefault('harness_errors', []).append(out['error'][-300:])
            continue
        r = out['r']
        if r.get('aborted'):
            res.extra.setdefault('aborted_scenarios', []).append(r['aborted'][:120])
        key = (sc['solver'], sc['bounds'], sc['tight'], sc['clip'], sc['cons'], sc['pen'], sc['reducer'])
        res.case(repr(key), nontrivial=r['steps'] > 0, sample={k: sc[k] for k in ('solver', 'ndim', 'cost', 'bounds', 'tight', 'clip', 'cons', 'pen', 'nsteps')})
        for (clause, detail) in r['violations']:
            res.violation('%s/bounded/%s/%s' % (prop, family(sc), clause), detail, jsonable(sc))
    res.extra['harness_errors_count'] = errors
    return res.out()


def replay_prop(prop, sc):
    r = run_scenario(sc, [prop])
    return not r['violations']
