"""C18 bounded layer: mystic.math.measures moment-imposing transforms and definitions, mystic.math.distance norms and
metrics, on random samples / weights (None, equal, positive, some exactly zero).  Every expected value is computed
here from the textbook weighted definition in plain Python (math.fsum); tolerance 1e-9 relative (the statements hold
to rounding); counts, supports and zeroed weights are compared exactly.
Distance metrics are checked in exactly the three documented usages: (a) pair=True on two points (1-D, axis=None) ->
the point-to-point distance; (b) pair=False, axis=0 on arrays of points (N,d),(M,d) -> the N x M matrix of distances;
(c) pair=True, axis=1 on two (N,d) arrays -> the N row-wise distances.
A second set of families ("option cases", gen_opt) exercises the documented optional arguments: impose_unweighted
nullable (omitted / True / False, keyword or positional); index selections empty / all / single / proper / repeated /
negative; exact zeros placed on / off the designated indices up to "all mass on the designated indices" and "all
designated already zero"; impose_collapse with pairs in the documented form (a set of tuples) and as a list, in any
order and orientation, forests and cliques (all close pairs of a group); trimming k scalar / (lo,hi) from 0 up to
lo+hi >= 100 with clip False/True; normalize / impose_sum with mass 0, zsum, zmass, 'l1'/'l2'/'l3' and the default;
impose_weight_norm default mass; mean tol; Lnorm axis and default p; metrics dmin and default p.
A request for which the documentation defines no result (no weight left off the designated indices and nothing that
could be reweighted; everything trimmed) is counted as degenerate: nothing is demanded, an exception is noted under
extra['aborted'].  impose_unweighted(nullable=False) is documented to "avoid null weights by reweighting non-index
weights", so it is defined (zeros on the designated indices, total and mean kept) whenever a non-index point exists."""
import math
import random
from .common import *       # noqa

P = 'C18/bounded/'
INF = float('inf')


# ----------------------------------------------------------------------------- textbook definitions (independent)
def W(x, w):
    return [1.0] * len(x) if w is None else w


def o_mean(x, w=None):
    w = W(x, w)
    return math.fsum(a * b for a, b in zip(x, w)) / math.fsum(w)


def o_moment(x, w=None, order=2):
    m = o_mean(x, w)
    return o_mean([(v - m) ** order for v in x], w)


def o_spread(x):
    return max(x) - min(x)


def o_median(x, w=None):
    """weighted median: the values v with mass(<v) <= W/2 and mass(>v) <= W/2; midpoint if there are several"""
    w = W(x, w)
    half = math.fsum(w) / 2.0
    c = [v for v in x if math.fsum(b for a, b in zip(x, w) if a < v) <= half and
         math.fsum(b for a, b in zip(x, w) if a > v) <= half]
    return (min(c) + max(c)) / 2.0


def o_mad(x, w=None):
    m = o_median(x, w)
    return o_median([abs(v - m) for v in x], w)


def o_trim(x, w, k, clip):
    """(sorted positions, retained masses) after trimming (or winsorising) klo% / khi% of the probability mass"""
    klo, khi = (k if isinstance(k, (list, tuple)) else (k, k))
    klo, khi = klo / 100.0, khi / 100.0
    pairs = sorted(zip(x, W(x, w)))
    tot = math.fsum(b for _, b in pairs)
    xs, keep, c0 = [], [], 0.0
    cum = [math.fsum(b for _, b in pairs[:i + 1]) / tot for i in range(len(pairs))]
    cum = [next((q for q in (klo, 1.0 - khi) if abs(v - q) < 1e-12), v) for v in cum]   # a tie is a tie
    for i, (a, b) in enumerate(pairs):
        c1 = cum[i]
        r = max(0.0, min(c1, 1.0 - khi) - max(c0, klo))
        if clip:        # the trimmed mass is moved onto the point that holds the quantile
            r += klo if c0 <= klo < c1 else 0.0
            r += khi if c0 < 1.0 - khi <= c1 else 0.0
        xs.append(a)
        keep.append(r)
        c0 = c1
    return xs, keep


def o_tmean(x, w, k, clip):
    xs, r = o_trim(x, w, k, clip)
    return o_mean(xs, r)


def o_tvar(x, w, k, clip):
    xs, r = o_trim(x, w, k, clip)
    m = o_mean(xs, r)
    return o_mean([(v - m) ** 2 for v in xs], r)


def o_dist(a, b, kind, p=3):
    d = [abs(u - v) for u, v in zip(a, b)]
    if kind == 'chebyshev' or (kind == 'minkowski' and p == INF):
        return max(d)
    if kind == 'hamming':
        return float(sum(1 for v in d if v != 0))
    p = {'manhattan': 1, 'euclidean': 2}.get(kind, p)
    return math.fsum(v ** p for v in d) ** (1.0 / p)


def FN(q, pt):          # test functions on points (used for expectation / ess_*)
    return q[0] * pt[0] + q[1] * pt[-1] ** 2 + q[2]


def close(a, b):
    return feq(a, b, 1e-9, 1e-11)


class Raised(Exception):
    """an exception that came out of mystic (the calls checked here are all defined, so it is a violation)"""


def call(f, *a, **k):
    try:
        return f(*a, **k)
    except Exception as e:      # noqa
        raise Raised('%s: %s' % (type(e).__name__, e))


# ----------------------------------------------------------------------------- generators
def gen_xw(rng, nmin=2):
    n = rng.randint(nmin, 8)
    x = [rng.choice([round(rng.uniform(-5, 10), 1), rng.uniform(-5, 10)]) for _ in range(n)]
    wk = rng.choice(['none', 'equal', 'positive', 'somezero'])
    w = None if wk == 'none' else [1.0] * n if wk == 'equal' else [rng.uniform(0.1, 2.0) for _ in range(n)]
    if wk == 'somezero' and n > 2:
        for i in rng.sample(range(n), rng.randint(1, n - 2)):
            w[i] = 0.0
    return x, w, wk


NAMES = ['impose_mean', 'impose_variance', 'impose_std', 'impose_spread', 'normalize', 'impose_sum',
         'impose_weight_norm', 'impose_support', 'impose_unweighted', 'impose_collapse', 'impose_median', 'impose_mad',
         'impose_tmean', 'impose_tvariance', 'impose_tstd', 'mean', 'variance', 'std', 'moment', 'expectation',
         'expected_variance', 'expected_std', 'ess_minimum', 'ess_maximum', 'ess_ptp', 'support', 'support_index',
         'Lnorm', 'chebyshev', 'manhattan', 'euclidean', 'hamming', 'minkowski']
METRICS = NAMES[-5:]


def gen_case(name, rng):
    x, w, wk = gen_xw(rng)
    n = len(x)
    c = dict(fn=name, x=x, w=w, wk=wk, t=rng.choice([0.5, 2.0, 7.25, -3.0]) if 'mean' in name or 'median' in name
             else rng.choice([0.5, 2.0, 7.25]))
    if name in ('impose_tmean', 'impose_tvariance', 'impose_tstd'):
        c.update(k=rng.choice([0, 10, 25, 12.5, [10, 20], [0, 30]]), clip=rng.random() < 0.4)
    if name in ('impose_support', 'impose_unweighted'):
        idx = rng.sample(range(n), rng.randint(1, n - 1))
        c['index'] = [i - n if rng.random() < 0.25 else i for i in idx]
    if name == 'impose_collapse':       # disjoint stars / chains, listed in increasing order, root = smallest index
        pos = sorted(rng.sample(range(n), rng.randint(2, min(n, 5))))
        cut = rng.randint(2, len(pos))
        groups = [pos[:cut], pos[cut:]]
        c['pairs'] = sorted([g[0] if rng.random() < 0.6 else g[j - 1], g[j]] for g in groups for j in range(1, len(g)))
    if name in ('moment',):
        c['order'] = rng.choice([0, 1, 2, 3, 4])
    if name in ('expectation', 'expected_variance', 'expected_std', 'ess_minimum', 'ess_maximum', 'ess_ptp',
                'support', 'support_index'):
        c['pts'] = [[v, rng.uniform(-2, 2)] if rng.random() < 0.5 else [v] for v in x]
        c['q'] = [rng.uniform(-2, 2), rng.uniform(-1, 1), rng.uniform(-3, 3)]
        c['tol'] = rng.choice([0, 0, 0.3])
        if w is None and name.startswith(('ess', 'support')):
            c['w'] = [rng.choice([0.0, rng.uniform(0.1, 2)]) for _ in range(n - 1)] + [1.0]
    if name == 'Lnorm':
        c['p'] = rng.choice([0, 1, 2, 3, 'inf', 4])
        c['x'] = [rng.choice([0.0, v]) for v in x]
        if random.Random(repr(x)).random() < 0.2:       # the power overflows: the documented fallback is the infinity norm
            c['p'] = 200
            c['x'] = [50.0 * v for v in c['x']]
    if name in METRICS:
        d, N, M = rng.randint(1, 4), rng.randint(1, 3), rng.randint(1, 3)
        grid = lambda r: [[float(rng.randint(-3, 3)) if rng.random() < 0.5 else rng.uniform(-3, 3)      # noqa: E731
                           for _ in range(d)] for _ in range(r)]
        c.update(X=grid(N), Y=grid(M), Z=grid(N), p=rng.choice([1, 2, 3, 4, 'inf']), x=None, w=None)
    return c


# ----------------------------------------------------------------------------- option cases (documented optional arguments)
OPT = ['impose_support', 'impose_unweighted', 'impose_collapse', 'impose_tmean', 'impose_tvariance', 'impose_tstd',
       'normalize', 'impose_sum', 'impose_weight_norm', 'mean', 'Lnorm'] + METRICS
KS = [0, 10, 25, 12.5, 20, 40, 49, [10, 20], [0, 30], [30, 0], [0, 0], [20, 40], [45, 45], [5, 60], 50, [60, 40], [70, 50]]
ABORTS = []     # exceptions seen on degenerate requests (drained by work)


def place_zeros(rng, n, zero, wkind):
    """positive weights with exact zeros placed relative to the designated (to be zeroed) set; total stays > 0"""
    w = [1.0] * n if wkind == 'equal' else [rng.uniform(0.1, 2.0) for _ in range(n)]
    on, off = sorted(zero), [i for i in range(n) if i not in zero]
    kill = []
    if wkind == 'zero-on' and on:
        kill = rng.sample(on, rng.randint(1, len(on)))
    elif wkind == 'zero-off' and len(off) > 1:
        kill = rng.sample(off, rng.randint(1, len(off) - 1))
    elif wkind == 'all-on' and on:          # all the mass sits on the designated indices
        kill = off + (rng.sample(on, rng.randint(0, len(on) - 1)) if rng.random() < 0.3 else [])
    elif wkind == 'all-off' and off:        # the designated weights are zero already
        kill = on + (rng.sample(off, rng.randint(0, len(off) - 1)) if rng.random() < 0.3 else [])
    elif wkind == 'mixed':
        kill = [i for i in range(n) if rng.random() < 0.4]
    kill = kill[:-1] if len(set(kill)) == n else kill
    for i in kill:
        w[i] = 0.0
    return w


def gen_opt(name, rng):
    if name in METRICS or name == 'Lnorm':
        c = gen_case(name, rng)
        c['opt'] = 1
        if name == 'Lnorm':
            c.update(axis=rng.choice([0, 1]), p=rng.choice([None, 0, 1, 2, 3, 'inf']))     # None: p omitted (default 1)
            c['X'] = [[rng.choice([0.0, float(rng.randint(-3, 3)), rng.uniform(-3, 3)]) for _ in range(rng.randint(1, 4))]
                      for _ in range(rng.randint(1, 3))]
            c['X'] = [r[:len(c['X'][0])] + [0.0] * (len(c['X'][0]) - len(r)) for r in c['X']]
        else:
            c.update(dmin=rng.choice([0, 1, 2]), p=rng.choice([None, 1, 2, 4, 'inf']))     # None: p omitted (default 3)
        return c
    n = rng.randint(2, 8)
    x = [rng.choice([round(rng.uniform(-5, 10), 1), rng.uniform(-5, 10)]) for _ in range(n)]
    c = dict(fn=name, x=x, opt=1, t=rng.choice([0.5, 2.0, 7.25, -3.0]) if name == 'impose_tmean' else rng.choice([0.5, 2.0, 7.25]))
    WK = ['equal', 'positive', 'zero-on', 'zero-off', 'all-on', 'all-off', 'mixed']
    if name in ('impose_support', 'impose_unweighted'):
        ik = rng.choice(['empty', 'all', 'single', 'proper', 'proper', 'repeated', 'negative'])
        sel = [] if ik == 'empty' else list(range(n)) if ik == 'all' else [rng.randrange(n)] if ik == 'single' else \
            rng.sample(range(n), rng.randint(1, n - 1))
        idx = list(sel)
        if ik == 'repeated':
            idx += [rng.choice(sel) - rng.choice([0, n]) for _ in range(rng.randint(1, 3))]
            rng.shuffle(idx)
        elif ik == 'negative':
            idx = [i - n for i in idx]
        elif ik == 'proper':
            idx = [i - n if rng.random() < 0.25 else i for i in idx]
        zero = set(sel) if name == 'impose_unweighted' else set(range(n)) - set(sel)
        c.update(index=idx, ikind=ik, wk=rng.choice(WK))
        c['w'] = place_zeros(rng, n, zero, c['wk'])
        if name == 'impose_unweighted':     # 'omit': argument not given; nullable passed by keyword or positionally
            c.update(nullable=rng.choice(['omit', True, False, False]), npos=rng.random() < 0.5)
    elif name == 'impose_collapse':
        form = rng.choice(['forest', 'clique'])
        mem = rng.sample(range(n), rng.randint(2, min(n, 6)))
        cut = rng.choice([len(mem)] + list(range(2, len(mem) - 1)))
        pairs = []
        for g in (mem[:cut], mem[cut:]):
            if form == 'clique':            # every pair of a group of mutually close points, smaller index first
                g = g[:4]
                pairs += [[a, b] for a in sorted(g) for b in sorted(g) if a < b]
            else:                           # a random tree on the group, either orientation
                pairs += [rng.choice([[g[rng.randrange(j)], g[j]], [g[j], g[rng.randrange(j)]]]) for j in range(1, len(g))]
        rng.shuffle(pairs)
        if rng.random() < 0.25:
            pairs = [[i - n if rng.random() < 0.5 else i for i in p] for p in pairs]
        zero = set(i % n for p in pairs for i in p)
        c.update(pairs=pairs, form=form, container=rng.choice(['list', 'set']), wk=rng.choice(WK))
        c['w'] = place_zeros(rng, n, zero, c['wk'])
    elif name in ('impose_tmean', 'impose_tvariance', 'impose_tstd'):
        c.update(k=rng.choice(KS), clip=rng.random() < 0.5, kform=rng.choice(['tuple', 'list']),
                 wk=rng.choice(['none', 'equal', 'positive', 'mixed']))
        c['w'] = None if c['wk'] == 'none' else place_zeros(rng, n, set(), c['wk'])
    elif name in ('normalize', 'impose_sum', 'impose_weight_norm'):
        c['wk'] = rng.choice(['equal', 'positive', 'mixed'])
        c['w'] = place_zeros(rng, n, set(), c['wk'])
        if name == 'impose_weight_norm':
            c['mkind'] = 'default'
        else:
            c['mkind'] = rng.choice(['float', 'zero', 'zero'] + (['l1', 'l2', 'l3', 'default'] if name == 'normalize' else []))
            c.update(zsum=rng.choice(['omit', False, True]), zmass=rng.choice(['omit', 1.0, 2.5, 0.5]))
    elif name == 'mean':
        c['wk'] = rng.choice(['none', 'equal', 'positive', 'mixed'])
        c['w'] = None if c['wk'] == 'none' else place_zeros(rng, n, set(), c['wk'])
        c['tol'] = rng.choice([0, 0.5, 3.0, 20.0])
    return c


# ----------------------------------------------------------------------------- checks: return [(clause, tag, detail)]
def components(n, pairs):
    """connected groups (size >= 2) of the graph whose edges are the pairs"""
    comp = {i: {i} for i in range(n)}
    for i, j in pairs:
        if comp[i % n] is not comp[j % n]:
            u = comp[i % n] | comp[j % n]
            for v in u:
                comp[v] = u
    return sorted(set(tuple(sorted(g)) for g in comp.values() if len(g) > 1))


def defined_or_abort(c, f, *a, **k):
    """a request the documentation leaves undefined: nothing is demanded; an exception is only noted"""
    try:
        f(*a, **k)
    except Exception as e:      # noqa
        ABORTS.append('%s: %s' % (c['fn'], type(e).__name__))
    return [], True
def check(c):
    import mystic.math.measures as mm
    import mystic.math.distance as md
    name, x, w, t = c['fn'], c['x'], c['w'], c.get('t')
    bad = []
    add = lambda cl, ok, detail, tg='': ok or bad.append((cl, tg, detail))       # noqa: E731
    degenerate = False
    if name in METRICS:
        f = getattr(md, name)
        kw = {'p': INF if c['p'] == 'inf' else c['p']} if name == 'minkowski' and c['p'] is not None else {}
        p = kw.get('p', 3)
        X, Y, Z = c['X'], c['Y'], c['Z']
        dm = {'dmin': c['dmin']} if 'dmin' in c else {}      # upconversion to >= dmin dimensions: same two points
        got = float(call(f, X[0], Y[0], pair=True, **dict(kw, **dm)))
        add('pair-of-points', close(got, o_dist(X[0], Y[0], name, p)), '(a) %r %r vs %r' % (dm, got, o_dist(X[0], Y[0], name, p)))
        got = np.asarray(call(f, np.array(X), np.array(Y), axis=0, **kw)).tolist()
        want = [[o_dist(a, b, name, p) for b in Y] for a in X]
        add('matrix-axis0', np.shape(got) == np.shape(want) and all(close(g, v) for gr, wr in zip(got, want)
                                                                  for g, v in zip(gr, wr)), '(b) %r vs %r' % (got, want))
        got = np.asarray(call(f, np.array(X), np.array(Z), pair=True, axis=1, **kw)).tolist()
        want = [o_dist(a, b, name, p) for a, b in zip(X, Z)]
        add('rows-axis1', np.shape(got) == np.shape(want) and veq(got, want, 1e-9, 1e-11), '(c) %r vs %r' % (got, want))
        if name != 'hamming':
            # coordinates of very different magnitude: point i differs from every point of Y by (i+1)e200 in ONE coordinate and
            # by O(10) in the others, so every p-norm equals that dominant difference to machine precision -- whether or not
            # |x - x'|**p overflows on the way (one distance per pair of points, along the requested axis)
            XH = [list(r_) for r_ in X]
            for i_, r_ in enumerate(XH):
                r_[i_ % len(r_)] = (i_ + 1) * 1e200
            wanth = [[(i_ + 1) * 1e200 for _ in Y] for i_ in range(len(XH))]
            got = np.asarray(call(f, np.array(XH), np.array(Y), axis=0, **kw)).tolist()
            add('matrix-axis0-huge-coordinates', np.shape(got) == np.shape(wanth) and all(feq(g, v, 1e-9, 0.0) for gr, wr in zip(got, wanth)
                                                                                       for g, v in zip(gr, wr)), '(b2) %r vs %r' % (got, wanth))
            got = np.asarray(call(f, np.array(XH), np.array(Z), pair=True, axis=1, **kw)).tolist()
            wanth = [(i_ + 1) * 1e200 for i_ in range(len(XH))]
            add('rows-axis1-huge-coordinates', np.shape(got) == np.shape(wanth) and all(feq(g, v, 1e-9, 0.0) for g, v in zip(got, wanth)),
                '(c2) %r vs %r' % (got, wanth))
        # a single point against a set of points (either order): the point counts as a set of one
        for tagd, A, B, wantd in (('point-vs-set-axis0', np.array(X[0]), np.array(Y), [[o_dist(X[0], b, name, p) for b in Y]]),
                                  ('set-vs-point-axis0', np.array(X), np.array(Y[0]), [[o_dist(a, Y[0], name, p)] for a in X])):
            got = np.asarray(call(f, A, B, axis=0, **kw)).tolist()
            add(tagd, np.shape(got) == np.shape(wantd) and all(close(g, v) for gr, wr in zip(got, wantd) for g, v in zip(gr, wr)),
                '(d) %r vs %r' % (got, wantd))
        if name == 'manhattan':
            # the Lipschitz-weighted metric between two DIFFERENT sets of points (also of different sizes): entry [i][j] is
            # sum_k L[k] * |x[i][k] - x'[j][k]|
            L = [abs(v) + 0.5 for v in X[0]]
            for tagd, A, B in (('lipschitz-two-sets', X, Y), ('lipschitz-sets-of-different-size', X, Y[:max(1, len(Y) - 1)] + [Z[0]] * 2)):
                wantd = [[math.fsum(l * abs(u - v) for l, u, v in zip(L, a, b)) for b in B] for a in A]
                got = np.asarray(call(md.lipschitz_metric, np.array(L), np.array(A), np.array(B))).tolist()
                add(tagd, np.shape(got) == np.shape(wantd) and all(close(g, v) for gr, wr in zip(got, wantd) for g, v in zip(gr, wr)),
                    '(e) L=%r: %r vs %r' % (L, got, wantd))
        return bad, False
    if name == 'Lnorm' and 'axis' in c:     # the norm taken along an axis of a 2-D array; p omitted -> 1
        X, ax = c['X'], c['axis']
        p = INF if c['p'] == 'inf' else 1 if c['p'] is None else c['p']
        vecs = [list(v) for v in zip(*X)] if ax == 0 else X
        want = [float(sum(1 for v in r if v != 0)) if p == 0 else max(abs(v) for v in r) if p == INF else
                math.fsum(abs(v) ** p for v in r) ** (1.0 / p) for r in vecs]
        got = np.asarray(call(md.Lnorm, np.array(X), axis=ax, **({} if c['p'] is None else {'p': p}))).ravel().tolist()
        add('definition', veq(got, want, 1e-9, 1e-11), 'Lnorm(%r, p=%r, axis=%r) = %r, definition gives %r' % (X, c['p'], ax, got, want))
        return bad, False
    if name == 'Lnorm':
        p = INF if c['p'] == 'inf' else c['p']
        big = max(abs(v) for v in x) if x else 0.0
        want = float(sum(1 for v in x if v != 0)) if p == 0 else big if (p == INF or big == 0) else \
            big * math.fsum((abs(v) / big) ** p for v in x) ** (1.0 / p)         # scaled: no overflow for large p
        got = float(call(md.Lnorm, x, p))
        try:
            overflows = p not in (0, INF) and big > 0 and (big ** p) * len(x) == INF
        except OverflowError:
            overflows = True
        if overflows:
            # where the power overflows in floating point the code falls back on the infinity norm (its own comment): accepted
            # as the p-norm "to overflow" -- between the largest magnitude and the exact p-norm, which differ by < n**(1/p)
            add('definition', big * (1 - 1e-12) <= got <= want * (1 + 1e-9),
                'Lnorm(%r, p=%r) = %r, not between the largest magnitude %r and the p-norm %r' % (x, p, got, big, want))
        else:
            # known sub-case (F49): |x|**p below the normal float range (subnormal or 0): the sum of powers has lost its
            # precision, or vanished, before the root is taken (the code guards against overflow only)
            under = 'power-underflows' if (p not in (0, INF) and big > 0 and big ** p < 2.3e-308) else ''
            add('definition', close(got, want), 'Lnorm(%r, p=%r) = %r, definition gives %r' % (x, p, got, want), under)
        return bad, False
    wx = W(x, w)
    m0, v0, r0 = o_mean(x, w), o_moment(x, w, 2), o_spread(x)
    wtag = 'weighted,even-n' if c['wk'] in ('positive', 'somezero') and len(x) % 2 == 0 else ''
    if name == 'impose_mean':
        y = [float(v) for v in call(mm.impose_mean, t, x, w)]
        add('target', close(o_mean(y, w), t), 'mean %r, target %r' % (o_mean(y, w), t))
        add('keeps-spread', close(o_spread(y), r0), 'spread %r -> %r' % (r0, o_spread(y)))
        add('keeps-variance', close(o_moment(y, w), v0), 'variance %r -> %r' % (v0, o_moment(y, w)))
    elif name in ('impose_variance', 'impose_std', 'impose_spread'):
        degenerate = v0 < 1e-6 or r0 < 1e-3
        if not degenerate:
            y = [float(v) for v in call(getattr(mm, name), t, x, w)]
            got = {'impose_variance': o_moment(y, w), 'impose_std': math.sqrt(o_moment(y, w)), 'impose_spread': o_spread(y)}
            add('target', close(got[name], t), '%s of result %r, target %r' % (name[7:], got[name], t))
            add('keeps-mean', close(o_mean(y, w), m0), 'mean %r -> %r' % (m0, o_mean(y, w)))
    elif name in ('normalize', 'impose_sum') and 'mkind' in c:
        mk = c['mkind']
        kw = {k: c[k] for k in ('zsum', 'zmass') if c[k] != 'omit'}
        mass = {'float': t, 'zero': 0.0}.get(mk, mk)
        y = call(mm.normalize, wx, **kw) if mk == 'default' else call(mm.normalize, wx, mass, **kw) \
            if name == 'normalize' else call(mm.impose_sum, mass, wx, **kw)
        y = [float(v) for v in y]
        if mk in ('float', 'zero'):         # the requested total (0: by scaling, or by counterbalance if zsum)
            add('total', close(math.fsum(y), mass), 'sum %r, requested %r (%r) from %r -> %r' % (math.fsum(y), mass, kw, wx, y))
        else:                               # 'l<p>' (default 'l2'): unit L-p norm
            lp = 2 if mk == 'default' else int(mk[1:])
            got = math.fsum(abs(v) ** lp for v in y) ** (1.0 / lp)
            add('total', close(got, 1.0), 'L%d norm %r after normalize(mass=%r) from %r -> %r' % (lp, got, mk, wx, y))
    elif name in ('normalize', 'impose_sum'):
        y = call(mm.normalize, wx, t) if name == 'normalize' else call(mm.impose_sum, t, wx)
        add('total', close(math.fsum(float(v) for v in y), t), 'sum %r, requested %r' % (math.fsum(float(v) for v in y), t))
    elif name == 'impose_weight_norm':
        t = 1.0 if c.get('mkind') == 'default' else t
        y, w2 = call(mm.impose_weight_norm, x, wx) if c.get('mkind') == 'default' else call(mm.impose_weight_norm, x, wx, t)
        y, w2 = [float(v) for v in y], [float(v) for v in w2]
        add('total', close(math.fsum(w2), t), 'weights sum %r, requested %r' % (math.fsum(w2), t))
        add('keeps-mean', close(o_mean(y, w2), m0), 'mean %r -> %r' % (m0, o_mean(y, w2)))
    elif name in ('impose_support', 'impose_unweighted', 'impose_collapse'):
        n = len(x)
        if name == 'impose_collapse' and 'form' in c:
            # pairs in any order / orientation, given as a set (the documented form) or a list.  "Collapse the weight
            # and position of each pair": of every pair one weight is zero and both positions coincide; points in no
            # pair keep their weight; total and mean are kept
            pairs = [tuple(p) for p in c['pairs']]
            arg = set(pairs) if c['container'] == 'set' else pairs
            y, w2 = call(mm.impose_collapse, arg, x, wx)
            y, w2 = [float(v) for v in y], [float(v) for v in w2]
            groups = components(n, pairs)
            free = set(range(n)) - set(i for g in groups for i in g)
            # description of the request (for the sub-case tag): does it contain a cycle; does some pair, in the order
            # the pairs are presented, join two groups that were both started by earlier pairs
            cyclic = len(set(frozenset(i % n for i in p) for p in pairs)) > sum(len(g) - 1 for g in groups)
            late, seen = False, []
            for i, j in arg:
                hit = [g for g in seen if i % n in g or j % n in g]
                late = late or len(hit) > 1
                seen = [g for g in seen if g not in hit] + [set([i % n, j % n]).union(*hit)]
            tg, tgt = 'pairs=late-join' if late else '', 'pairs=cyclic' if cyclic else ''
            ok = all(w2[i] == wx[i] for i in free) and all(w2[i % n] == 0.0 or w2[j % n] == 0.0 for i, j in pairs)
            info = 'pairs %r x=%r: weights %r -> %r, positions %r' % (arg, x, wx, w2, y)
            add('zeros-exact', ok, info, tg)
            add('keeps-total', close(math.fsum(w2), math.fsum(wx)), 'total %r -> %r; %s' % (math.fsum(wx), math.fsum(w2), info), tgt)
            add('keeps-mean', close(o_mean(y, w2), m0), 'mean %r -> %r; %s' % (m0, o_mean(y, w2), info), tgt or tg)
            add('positions-collapsed', all(y[i % n] == y[j % n] for i, j in pairs), info, tg)
            return bad, False
        if name == 'impose_collapse':
            root = {}
            for i, j in c['pairs']:
                root[j] = root.get(i, i)
            zero = set(root)
            args, kw = ([tuple(p) for p in c['pairs']], x, wx), {}
        else:
            sel = set(i % n for i in c['index'])
            zero = set(range(n)) - sel if name == 'impose_support' else sel
            args, kw = (list(c['index']), x, wx), {}
            if c.get('nullable', 'omit') != 'omit':
                args, kw = (args + (c['nullable'],), {}) if c.get('npos') else (args, {'nullable': c['nullable']})
        rest = math.fsum(wx[i] for i in range(n) if i not in zero)
        # nullable=False: "avoid null weights by reweighting non-index weights" -> defined if a non-index point exists
        refill = rest <= 0 and c.get('nullable') is False and len(zero) < n
        degenerate = rest <= 0 and not refill
        if degenerate:      # no weight would be left: the documentation defines no result
            return defined_or_abort(c, getattr(mm, name), *args, **kw)
        if True:
            y, w2 = call(getattr(mm, name), *args, **kw)
            y, w2 = [float(v) for v in y], [float(v) for v in w2]
            tg = '' if 'opt' not in c else 'nullable=False,all-mass-on-index' if refill else \
                'index=%s' % c['ikind'] if c['ikind'] in ('empty', 'all', 'repeated') else ''
            if refill:      # the designated weights vanish (the others were zero and now carry the total)
                ok = all(w2[i] == 0.0 for i in zero)
            elif name == 'impose_collapse':   # a root receives the weight of its group; everything else is untouched
                want = [0.0 if i in zero else math.fsum([wx[i]] + [wx[j] for j, r in root.items() if r == i])
                        for i in range(n)]
                ok = all(w2[i] == 0.0 if i in zero else close(w2[i], want[i]) if i in root.values() else
                         w2[i] == wx[i] for i in range(n))
            else:
                ok = all((w2[i] == 0.0) == (i in zero or wx[i] == 0.0) for i in range(n))
            info = '' if 'opt' not in c else '; %s(%r, %r, %r%s)' % (name, c['index'], x, wx, ''.join(', %r' % (v,) for v in args[3:]) + ''.join(', %s=%r' % kv for kv in kw.items()))
            add('zeros-exact', ok, 'weights %r -> %r, designated %r%s' % (wx, w2, sorted(zero), info), tg)
            add('keeps-total', close(math.fsum(w2), math.fsum(wx)), 'total %r -> %r%s -> %r' % (math.fsum(wx), math.fsum(w2), info, w2), tg)
            add('keeps-mean', math.fsum(w2) > 0 and close(o_mean(y, w2), m0), 'mean %r -> %r%s -> %r, %r' % (
                m0, o_mean(y, w2) if math.fsum(w2) > 0 else 'undefined (null weights)', info, y, w2), tg)
            if name == 'impose_collapse':
                add('positions-collapsed', all(y[j] == y[r] for j, r in root.items()), 'pairs %r, positions %r' % (c['pairs'], y))
    elif name in ('impose_median', 'impose_mad'):
        degenerate = name == 'impose_mad' and (o_mad(x, w) < 1e-6 or t < 0)
        if not degenerate:
            y = [float(v) for v in call(getattr(mm, name), abs(t) if name == 'impose_mad' else t, x, w)]
            got = o_median(y, w) if name == 'impose_median' else o_mad(y, w)
            add('target', close(got, abs(t) if name == 'impose_mad' else t),
                '%s of result %r, target %r (x=%r w=%r)' % (name[7:], got, t, x, w), wtag)
    elif name in ('impose_tmean', 'impose_tvariance', 'impose_tstd'):
        k, clip = c['k'], c['clip']
        kk = tuple(k) if isinstance(k, list) and c.get('kform') != 'list' else k
        if sum(k if isinstance(k, list) else [k, k]) >= 100:    # everything is trimmed ("will return nan") or more
            return defined_or_abort(c, getattr(mm, name), t, x, w, k=kk, clip=clip)
        degenerate = name != 'impose_tmean' and o_tvar(x, w, k, clip) < 1e-6
        if not degenerate:
            y = [float(v) for v in call(getattr(mm, name), t, x, w, k=kk, clip=clip)]
            got = o_tmean(y, w, k, clip) if name == 'impose_tmean' else o_tvar(y, w, k, clip)
            got = math.sqrt(got) if name == 'impose_tstd' else got
            add('target', close(got, t), '%s(k=%r, clip=%r) of result %r, target %r' % (name[7:], k, clip, got, t))
    elif name in ('mean', 'variance', 'std', 'moment'):
        want = {'mean': m0, 'variance': v0, 'std': math.sqrt(v0)}.get(name)
        if name == 'moment':
            o = c['order']
            want = 1.0 if o == 0 else 0.0 if o == 1 else o_moment(x, w, o)
            got = call(mm.moment, x, w, order=o)
        elif name == 'mean' and 'opt' in c:     # tol: "any mean <= tol is zero" (a mean below -tol: not demanded)
            tol = c['tol']
            got = call(mm.mean, x, w, tol) if w is not None else call(mm.mean, x, tol=tol)
            want = 0.0 if abs(m0) <= tol else m0
            if m0 < -tol and tol > 0:
                return bad, True
        else:
            got = call(getattr(mm, name), x, w)
        add('definition', close(got, want), '%s = %r, definition gives %r' % (name, got, want))
    else:
        pts, q, tol = c['pts'], c['q'], c['tol']
        f = lambda pt: FN(q, pt)        # noqa: E731
        on = [i for i in range(len(pts)) if wx[i] > tol]
        degenerate = not on
        if name in ('support', 'support_index'):
            got = call(mm.support, pts, wx, tol) if name == 'support' else call(mm.support_index, wx, tol)
            want = [pts[i] for i in range(len(pts)) if wx[i] > tol] if name == 'support' else on
            add('definition', list(got) == want, '%s(tol=%r) = %r, definition gives %r' % (name, tol, got, want))
        elif not degenerate:
            fs, ws = [f(pts[i]) for i in on], [wx[i] for i in on]
            if w is None:       # unweighted call: every point counts
                fs, ws, kw = [f(p) for p in pts], None, {}
            else:
                kw = {'weights': w, 'tol': tol}
            e = o_mean(fs, ws)
            want = {'expectation': e, 'expected_variance': o_moment(fs, ws), 'expected_std': math.sqrt(o_moment(fs, ws)),
                    'ess_minimum': min(fs), 'ess_maximum': max(fs), 'ess_ptp': max(fs) - min(fs)}[name]
            got = call(getattr(mm, name), f, pts, **kw)
            ok = (got == want) if name in ('ess_minimum', 'ess_maximum') else close(got, want)
            add('definition', ok, '%s(tol=%r) = %r, definition gives %r' % (name, tol, got, want))
    return bad, degenerate


def check_case(c):
    try:
        bad, degenerate = check(c)
    except Raised as e:
        return [(P + c['fn'] + '/raises', str(e))], False
    return [(P + c['fn'] + '/' + cl + ('#' + tg if tg else ''), d) for cl, tg, d in bad], degenerate


def work(chunk):
    res = Result('', '')
    aborted = {}
    for c in chunk:
        viol, degenerate = check_case(c)
        n = len(c['x']) if c['x'] else len(c['X'])
        extra = [c.get(k) for k in ('k', 'clip', 'order', 'tol', 'p', 'ikind', 'nullable', 'form', 'container', 'mkind',
                                    'zsum', 'zmass', 'axis', 'dmin') if k in c]
        res.case('%s|%s|n=%d|%r' % (c['fn'], c['wk'], n, extra), not degenerate, jsonable(c) if not degenerate else None)
        for k, d in viol:
            res.violation(k, d, jsonable(c))
    for a in ABORTS:
        aborted[a] = aborted.get(a, 0) + 1
    del ABORTS[:]
    p = res.part()
    p['aborted'] = aborted
    return p


def run(tier='quick', seed=0):
    per = 800 if tier == 'quick' else 25000
    rng = random.Random(seed)
    cases = [gen_case(name, rng) for name in NAMES for _ in range(per)]
    cases += [gen_opt(name, random.Random('%d/%s/%d' % (seed, name, i))) for name in OPT for i in range(per)]
    res = Result(rule='%d functions x %d seeded cases (samples of 2-8 points in [-5,10]; weights None / equal / positive / '
                 'some exactly zero; targets, index sets, collapse pairs, trimming fractions 0-30%%, orders 0-4, p in '
                 '{0,1,2,3,4,inf}); distinct = (function, weight kind, n, parameters); non-trivial = operation defined '
                 '(variance/spread/mad/remaining weight not degenerate)' % (len(NAMES), per),
                 bound='%d functions x %d cases, n <= 8, metrics on <= 3 points of dimension <= 4' % (len(NAMES), per))
    random.Random(seed + 1).shuffle(cases)
    size = max(1, len(cases) // 64)
    aborted = {}
    for p in pmap(work, [cases[i:i + size] for i in range(0, len(cases), size)]):
        res.merge(p)
        for k, v in p['aborted'].items():
            aborted[k] = aborted.get(k, 0) + v
    res.extra['aborted'] = aborted
    res.extra['functions'] = NAMES
    return res.out()


def replay(inp):
    return not check_case(inp)[0]
