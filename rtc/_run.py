import sys, time, json, importlib; sys.path.insert(0,'/verif')
for name in sys.argv[1:]:
    m=importlib.import_module('rtc.'+name)
    t=time.time(); r=m.run('quick',0)
    print(m.__name__, r['evaluations'], r['distinct_nontrivial'], 'viol', len(r['violations']), 'err', r.get('harness_errors_count'), '%.1fs'%(time.time()-t))
    seen=set()
    for v in r['violations']:
        if v['key'] in seen: continue
        seen.add(v['key']); print('  ', v['key'], '|', v['detail'][:230], '|', {k:v['input'].get(k) for k in ('solver','bounds','tight','clip','cons','pen','reducer','start','install_ranges_at','install_cons_at')} if isinstance(v['input'],dict) else '')
    for e in r.get('harness_errors',[])[:3]: print('  ERR', e)
